"""Regenerates MANIFEST.json from the table below (kept in one place so it is always valid)."""
import json, os
HERE = os.path.dirname(os.path.abspath(__file__))

CHECKS = {}
NA = {}

def check(pid, engine, text, note, technique, design_ref):
    CHECKS[pid] = dict(property_id=pid, quick_cmd='./check %s quick' % pid, thorough_cmd='./check %s thorough' % pid,
                       evidence_file='evidence/%s.json' % pid, replay_cmd_template='./check replay {path}',
                       engine=engine, level_claimed=dict(category='exploration', text=text, design_ref=design_ref),
                       level_note=note, technique=technique)

check('C07', 'E1-hubsim',
      'Seeded search over hub schedules (broadcast / delay / ignore / subscribe / unsubscribe / listener death / '
      're-entrant handler scripts / exception exits) executed on the real Hub; every recorded trace is validated by a '
      'spec state machine (exactly-once, right recipients, priority order, no delivery while delayed, in-order flush at '
      'the outermost exit, ignored types dropped; a listener dropped by its owner is gone after the next collection). Sampling of schedules, not proof; '
      'exploration is the honest level.',
      'Trusts CPython weakref/GC semantics and the 250-line trace checker; handlers never raise; schedules up to 40 '
      'top-level operations, re-entrancy depth 3, 4 listeners, 4 message classes.',
      'deterministic simulation: seeded hub scheduler + fault injection (listener death, exception exits, GC points) + trace-validation oracle',
      'DESIGN.md section 7 C07')

check('C06', 'E2-world',
      'Seeded search over collection/group/command histories with delay windows, rejected calls and crash-restart on the real '
      'objects; a structural invariant (exactly one GroupedSubset per group per dataset, shared state/label/style, no membership '
      'left on removed datasets or groups) is evaluated after every quiescent step. Sampling of histories, not proof.',
      'Invariant is evaluated only when no delay window is open; histories up to 80 operations; datasets up to 3-d with <= 24 elements.',
      'deterministic simulation: seeded history scheduler + fault injection (delay windows, exception exits, rejected calls, crash-restart) + structural invariant',
      'DESIGN.md section 7 C06')
check('C13', 'E2-world',
      'Seeded search over do/undo/redo interleavings of the real command classes through Application.do/undo/redo (also > 50 commands '
      'and across restarts); the harness keeps a stack of user-visible snapshots and requires undo/redo to reproduce them. Sampling, not proof.',
      'Operations outside the command stack run only on an empty history (the statement quantifies over command sequences); commands whose do() raises are not generated.',
      'deterministic simulation: seeded command-history scheduler + crash-restart + snapshot-stack reference model',
      'DESIGN.md section 7 C13')


check('C03', 'E2-world',
      'Seeded search over link/component/dataset histories (all link helper kinds, delay windows, rejected calls, queued removal '
      'messages) on the real DataCollection/LinkManager; a reference model (registered-link multiset, Bellman-Ford reachability with '
      "glue's cost rule, allowed values along minimum-cost derivations) is validated against every dataset through the public API at "
      'every quiescent step. Sampling, not proof.',
      'Link functions are exact on the generated small-integer data; coordinates are axis-separable; no key joins; oracle only at quiescence.',
      'deterministic simulation: seeded history scheduler + delay windows / rejected calls / exception exits + reference-model trace validation',
      'DESIGN.md section 7 C03')


check('C05', 'E2-world',
      'Twin-world differential under a seeded read schedule: world A runs the generated history of writes and reads (masks, values, '
      'statistics, histograms, copies, views; file rewrite + simulated poll timer -> LoadLog.reload); at up to three checkpoints a cold '
      'twin is rebuilt from reset process globals by replaying the writes only, and every observable must agree. In 40% of runs a hub listener '
      'evaluates the sender\'s selections inside every message handler (reads inside writes). Three oracles are independent of the twin: each tracked '
      'selection vs a never-evaluated clone, stored values vs the last write to that dataset (writes are isolated), what a real histogram viewer shows vs '
      'the twin\'s compute_histogram. Sampling, not proof.',
      'Both worlds run glue: a result that is wrong with warm and cold caches alike is invisible (C01/C03/C14 use independent models). '
      'Write patterns of the open findings in known_findings.json are excluded by generator guards once the state has been read.',
      'deterministic simulation: seeded read/write scheduler + simulated poll clock and file rewrites + twin-world (cold replay) oracle',
      'DESIGN.md section 7 C05')


check('C01', 'E2-world',
      'Seeded search over evaluation/combination histories: expression trees over every elementary selection kind are built, combined from live '
      'operand states, copied, inverted, many-way-or-ed and pushed through EditSubsetMode in every mode, while a read schedule evaluates whole '
      'trees, operand sub-states and copies any number of times with and without views; at checkpoints every group mask on every dataset must '
      'equal the numpy fold of the recipe tree over cold leaf masks. Sampling, not proof.',
      'Leaf masks come from freshly built glue leaf states (the algebra and its history-independence are decided, not the meaning of a leaf kind); views are slice tuples.',
      'deterministic simulation: seeded read/combination scheduler over the process-wide memo + numpy reference model of the algebra',
      'DESIGN.md section 7 C01')


check('C04', 'E2-world',
      'Weak claim, exploration only: over seeded histories (reads under other views that warm the per-view memo, data updates, group-state '
      'replacement, IndexedData creation and index changes that travel through hub messages) every comparison asks glue for a view and '
      'for the full result and requires get(view) == get()[view] in shape and content, and IndexedData values / masks / statistics / '
      'histograms to equal the parent slice. The attribute-kind x selection-kind x view-kind product is an input space: coverage is what '
      'the workload reaches (reported as fingerprints), not an enumeration.',
      'glue is its own reference for the full array (a result that is wrong in full and under the view alike is invisible here). The twelve '
      '(dependency class, view kind) findings of earlier rounds were repaired in /repo (51f37b9, e5ca478+98935aa, a64e1b6, 8ff440a, eb4dcd0); two guards are '
      'left: index-array tuples with negative entries on world-coordinate-dependent attributes / selections (open findings F-C04-17,18). Python lists are not generated as views.',
      'deterministic simulation (history of reads / index changes / updates) + view-consistency invariant at observation time',
      'DESIGN.md section 7 C04')


check('C02', 'E2-world',
      'Crash-restart simulation: seeded session histories (in-memory and file-backed datasets, every component kind, coordinates, links of '
      'every helper class, key joins, groups over every SubsetState / Roi class found by introspection, styles, metadata) with restart as a '
      'generated operation - save, drop every in-memory object, restore, continue on the restored session, save again - and storage faults '
      '(torn / short writes, ENOSPC, failing open and close, truncated / missing / empty / directory on read) attached to saves and restores. '
      'Oracle: user-visible snapshot equality, idempotence of a second round trip, loud failure under faults. Sampling, not proof.',
      'Python-level file faults are injected through glue.core.application_base.open; values and masks that depend on a non-unique link chain are '
      'compared as reachable/evaluable only; bit flips inside complete files are not injected.',
      'deterministic simulation: crash-restart as a scheduled operation + storage fault injection + snapshot-equality oracle',
      'DESIGN.md section 7 C02')


check('C12', 'E2-world',
      'Narrow claim (loading clause only): version-skew restarts - C02-style session histories in which every restart writes the Data or the '
      'DataCollection records with the saver registered for an older protocol version (1..5 / 1..4) and loads them with the '
      "repository's own loaders; snapshot equality restricted to what that version records; registry shape (versions consecutive from 1, "
      'default = newest, every saved version has a loader) asserted on the live registries. The rename-table clauses are static facts '
      'without history, schedule or fault and are not decided by this technique.',
      'One type is skewed at a time; content an old format cannot express (v1 collection: groups; Data < 4: key joins, uuid-bound element selections) is not generated.',
      'deterministic simulation: crash-restart with protocol-version skew of the writing process + restricted snapshot-equality oracle',
      'DESIGN.md section 7 C12')


check('C19', 'E2-world',
      'Seeded histories of export / overwrite / reload / data update / subset change / by-reference session restart over every exporter whose '
      'format has a reader (CSV, FITS table, VOTable, HDF5, gridded FITS) on real files, with storage faults on the writer (kernel EFBIG via '
      'RLIMIT_FSIZE, missing target directory) and on the reader (missing, zero-length, truncated file). Oracle: value round trip with '
      'dtype-appropriate equality; under faults the exporter raises or the file round-trips, and a damaged file never loads to different '
      'values silently. Sampling, not proof.',
      'Third-party writers / readers (astropy, h5py, pandas) run as installed; EFBIG is not used with the HDF5 C library (it does not survive '
      'failed writes); truncated CSV is excluded (no integrity structure); HDF5 component order is an open finding (order-insensitive compare).',
      'deterministic simulation: seeded export/reload history + storage fault injection (real kernel faults) + round-trip oracle',
      'DESIGN.md section 7 C19')


check('C14', 'E2-world',
      'Seeded histories on one dataset: derived attributes defined by arithmetic trees, user functions and parsed text over stored / pixel / '
      'world / derived inputs are added, removed, re-identified, reordered and have their inputs updated, with comparisons under views in '
      'between; the harness keeps the raw arrays and expression trees and requires data[derived, view] to equal the numpy evaluation, the '
      'component list after a removal to be the old list minus the transitive dependants, and update_id / reorder to keep values and order. '
      'Sampling, not proof.',
      'World-coordinate input values are read from glue; relative tolerance 1e-12 because numpy pow is not bit-reproducible across array '
      'layouts; attributes defined on a replaced identifier leave the checked set (the statement does not say they follow it).',
      'deterministic simulation: seeded mutation/read history + independent numpy reference model with dependency graph',
      'DESIGN.md section 7 C14')


check('C17', 'E2-world',
      'Seeded histories over the Data mutation API with valid and invalid arguments (calls rejected after they began to act), inside and '
      'outside a collection and hub delay windows, with a recording hub listener; after every step structural invariants on the real '
      'object, and at quiescence the multiset of structural messages must equal the diff of the before/after snapshots (nothing changed '
      'unannounced, nothing announced that did not happen). Sampling, not proof.',
      'Across a delay window only net requirements are checked (plus a listening client that replays the announcements); no generator guard is left (update_id under dependent derived attributes was repaired in /repo, 22d4f13); assigning an identifier the label it already has is not generated.',
      'deterministic simulation: seeded mutation history with rejected calls and delay windows + invariant and message-vs-snapshot-diff oracle',
      'DESIGN.md section 7 C17')


check('C11', 'E2-world',
      'Moderate claim: seeded histories of an evolving join graph (join_on_key in all four shapes, JoinLink add / remove through the link '
      'manager, key and value updates, partner removal from the collection; chains and cycles of up to 4 tables; int / float / string keys of '
      'mixed storage type and width) with comparisons of a selection on every table, with and without views; oracle is the relational '
      'definition in Python sets, accepting any partner / path that can answer, requiring IncompatibleAttribute where no chain of joins '
      'reaches an evaluator, and the recursion guard flag to be off after every call. Sampling, not proof.',
      'Selections are fresh state objects per comparison; numeric and string keys are never joined with each other; 1-d tables only.',
      'deterministic simulation: seeded join-graph history + relational reference model (trace validation with allowed-outcome sets)',
      'DESIGN.md section 7 C11')


check('C16', 'E2-world',
      'Seeded request sequences sharing cache identifiers against datasets linked by per-axis affine pixel maps (scale, offset, permutation, '
      'missing link): every request is compared with an independent nearest-pixel resampler (explicit index arithmetic; half-way samples '
      'accept either neighbour) and, when it used a cache id, with the same request made without one - whatever bounds, attributes, '
      'selections or datasets were requested before under that id. Sampling, not proof.',
      'Data, links and selections are frozen after set-up (statement: "for unchanged data"); ImageLayerState.get_sliced_data is not driven.',
      'deterministic simulation: seeded request history over the process-wide FRB caches + independent resampling model + with/without-cache differential',
      'DESIGN.md section 7 C16')


check('C18', 'E2-world',
      'Seeded histories in which viewers (generic state-based Viewer; matplotlib histogram / scatter / image / profile viewers in the thorough '
      'tier), attribute and dataset pickers and image viewer states live alongside the collection while it is mutated (datasets, groups, '
      'components, labels), with hub delay windows, parties dropped without being closed (weak hub references), and crash-restart with the '
      'viewers saved through a stub application shell; a mirror invariant (layers == given datasets still in the collection + their current '
      'subsets, state.layers agrees, picker choices == filtered attributes, selection valid, image axes distinct axes of the reference '
      'dataset) is checked at every quiescent step. Sampling, not proof.',
      'The application shell that stores viewers is harness code modelled on glue-qt; layers are not removed one by one; a dataset removed and '
      're-added inside one delay window may or may not stay in a viewer / picker (both accepted).',
      'deterministic simulation: seeded history with delay windows, party death and crash-restart + mirror invariant',
      'DESIGN.md section 7 C18')


def na(pid, reason):
    NA[pid] = dict(property_id=pid, reason=reason)

PENDING = 'check under construction in this build round (see DESIGN.md section 7); not claimed until its oracle is proven sound on the unchanged tree'
for pid in []:
    na(pid, PENDING)
na('C08', 'pure function of region parameters and points: no schedule, clock, fault, shared state or history for a simulator to vary (DESIGN.md section 8)')
na('C09', 'pure translation roi -> subset state; nothing stateful or faulty involved (DESIGN.md section 8)')
na('C10', 'pure numerics of (array, arguments, chunk limit); chunk limit is an argument, not hidden state (DESIGN.md section 8)')
na('C15', 'pure numerical agreement between two code paths of one coordinate transform (DESIGN.md section 8)')
na('C20', 'pure array helpers; the right tool is bounded exhaustive enumeration, not simulation (DESIGN.md section 8)')

def main():
    claimed = sorted(CHECKS)
    for pid in claimed:
        NA.pop(pid, None)
    man = dict(
        version=1,
        setup_cmd='/venv/bin/python -c "import glue, numpy, sys; sys.path.insert(0, \'/verif\'); import sim.main"',
        hooks=dict(guard='GLUE_VIZ_GLUE_VERIF',
                   enable='no hooks exist: every seam is harness-side (sim/seams.py); checks import /repo through the editable install of /venv, so they always run the current working tree',
                   baseline_off_cmd='cd /repo && env -u GLUE_VIZ_GLUE_VERIF /venv/bin/python -m pytest -ra -q -p no:cacheprovider --timeout=900 --continue-on-collection-errors -n 12',
                   source_commits=[], add_only=True),
        engines=[dict(name='E1-hubsim', path='sim/checks/c07.py', serves_properties=['C07'],
                      kind_free_text='deterministic hub-schedule simulator with trace-validation oracle'),
                 dict(name='E2-world', path='sim/world.py', serves_properties=[p for p in claimed if p != 'C07'],
                      kind_free_text='deterministic session-world simulator (history, delay windows, restarts, storage faults, read schedules)')],
        checks=[CHECKS[p] for p in claimed],
        not_applicable=[NA[p] for p in sorted(NA)],
        notes='Technique family: deterministic simulation with fault injection. ./check <ID> quick|thorough; ./check replay <file>; '
              './check selftest determinism [ID]. Known findings: known_findings.json (+ findings/*.json witnesses).')
    json.dump(man, open(os.path.join(HERE, 'MANIFEST.json'), 'w'), indent=1)

if __name__ == '__main__':
    main()
