"""Turn the minimised replays of a run into open findings (used once per root-cause class, by hand).
usage: adopt_findings.py PROP TITLE-PREFIX   reads replays/PROP-*.json (minimised ones only)"""
import glob, json, os, re, sys
prop, prefix = sys.argv[1], sys.argv[2]
kf = '/verif/known_findings.json'
d = json.load(open(kf))
have = set(f['signature'] for f in d['findings'])
n = len([f for f in d['findings'] if f['property'] == prop])
for path in sorted(glob.glob('/verif/replays/%s-*.json' % prop)):
    if path.endswith('-raw.json'):
        continue
    r = json.load(open(path))
    sig = r['expect']['sig']
    if sig in have:
        continue
    have.add(sig)
    n += 1
    slug = re.sub(r'[^a-zA-Z0-9]+', '-', sig.split('/', 1)[1]).strip('-')
    wit = 'findings/%s-%s.json' % (prop, slug)
    r['case']['knobs']['guards'] = []
    json.dump(r, open('/verif/' + wit, 'w'), indent=1, sort_keys=True)
    parts = sig.split('/')
    guard = '%s-%s-%s-%s' % (prop, parts[1].split('-')[0], parts[2], parts[3]) if len(parts) == 4 else '%s-%s' % (prop, slug)
    d['findings'].append({'id': 'F-%s-%d' % (prop, n), 'property': prop, 'status': 'open', 'signature': sig, 'witness': wit,
                          'title': '%s: %s' % (prefix, sig.split('/', 1)[1]), 'guards': [guard],
                          'record': 'open: property=%s %s -- %s' % (prop, sig, r['detail'][:200])})
    print('adopted', sig, guard)
json.dump(d, open(kf, 'w'), indent=1)
