"""usage: addfinding.py ID PROP STATUS COMMIT SIGNATURE WITNESS TITLE HISTORY [guards,comma]"""
import json, sys
p = '/verif/known_findings.json'
d = json.load(open(p))
id_, prop, status, commit, sig, wit, title, hist = sys.argv[1:9]
guards = sys.argv[9].split(',') if len(sys.argv) > 9 else []
d['findings'] = [f for f in d['findings'] if f['id'] != id_]
e = {"id": id_, "property": prop, "status": status, "signature": sig, "witness": wit, "title": title}
if status == 'fixed':
    e['commit'] = commit
    e['record'] = "fixed: property=%s %s %s" % (prop, commit, hist)
else:
    e['record'] = "open: property=%s %s" % (prop, hist)
    e['guards'] = guards
d['findings'].append(e)
json.dump(d, open(p, 'w'), indent=1)
