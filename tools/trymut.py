"""Sensitivity probe: apply one textual mutation to a scratch worktree of /repo and run a check against it.
usage: trymut.py PROP FILE OLD NEW [tier]      (scratch worktree: /tmp/mut, reset before and after)"""
import os, subprocess, sys
prop, rel, old, new = sys.argv[1:5]
tier = sys.argv[5] if len(sys.argv) > 5 else 'quick'
MUT = '/tmp/mut'
if not os.path.exists(MUT):
    subprocess.check_call(['git', '-C', '/repo', 'worktree', 'add', '-q', '--detach', MUT, 'HEAD'])
subprocess.check_call(['git', '-C', MUT, 'checkout', '-q', '--detach', subprocess.check_output(['git', '-C', '/repo', 'rev-parse', 'HEAD']).decode().strip()])
subprocess.check_call(['git', '-C', MUT, 'checkout', '-q', '--', '.'])
p = os.path.join(MUT, rel)
s = open(p).read()
if s.count(old) != 1:
    print('pattern occurs %d times' % s.count(old)); sys.exit(2)
open(p, 'w').write(s.replace(old, new))
env = dict(os.environ, VERIF_REPO=MUT, VERIF_MAX_MINIMISE='2')
r = subprocess.run(['/verif/check', prop, tier], env=env, stdout=subprocess.PIPE, stderr=subprocess.STDOUT)
out = r.stdout.decode()
lines = [l for l in out.splitlines() if l.startswith(('VIOLATION', '  signature', '  detail', 'HARNESS', prop))]
print('exit', r.returncode)
print('\n'.join(l[:300] for l in lines[:12]))
subprocess.check_call(['git', '-C', MUT, 'checkout', '-q', '--', '.'])
