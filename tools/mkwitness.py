"""Write a finding witness (a replay file) from an op list and check where it fails.
usage: mkwitness.py PROP OUT SIG 'OPS-JSON' ['KNOBS-JSON']
Runs the case on VERIF_REPO (if set) or /repo and records the signatures seen."""
import json, os, sys
sys.path.insert(0, os.path.dirname(os.path.dirname(os.path.abspath(__file__))))
from sim import main as M
prop, out, sig, ops = sys.argv[1], sys.argv[2], sys.argv[3], json.loads(sys.argv[4])
knobs = json.loads(sys.argv[5]) if len(sys.argv) > 5 else {}
knobs.setdefault('prop', prop)
knobs.setdefault('guards', [])
case = {'knobs': knobs, 'ops': ops, 'env_seed': 1, 'seed': 1, 'idx': 'witness'}
path = os.path.join(M.ROOT, out)
M.write_replay(prop, 'quick', 0, 0, case, sig, '', 'witness', path=path)
spec, doc, err, rc = M.replay_file(path)
if doc is None:
    print('worker failed', err); sys.exit(2)
sigs = sorted(set(v['sig'] for v in doc['violations']))
print('repo=%s signatures=%s herr=%s' % (os.environ.get('VERIF_REPO', '/repo'), sigs, doc.get('harness_error')))
if doc['violations']:
    print('  detail:', doc['violations'][0]['detail'][:300])
    spec['expect']['digest'] = doc['digest']
    spec['detail'] = doc['violations'][0]['detail']
    json.dump(spec, open(path, 'w'), indent=1, sort_keys=True)
