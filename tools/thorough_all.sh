#!/bin/bash
# runs every claimed check once in the thorough tier and prints one line each (used in the background via vp run)
for p in C07 C06 C13 C03 C01 C04 C05 C02 C12 C19 C14 C17 C11 C16 C18; do
  t0=$(date +%s)
  out=$(VERIF_SEED=${VERIF_SEED:-0} ./check $p thorough 2>&1); rc=$?
  echo "$p thorough rc=$rc $(( $(date +%s) - t0 ))s $(echo "$out" | tail -1 | cut -c1-200)"
  if [ $rc -ne 0 ]; then echo "$out" | grep -A3 -E "VIOLATION|HARNESS" | head -30; fi
done
