#!/bin/bash
# usage: tools/soak.sh <tier> <first-seed> <n-seeds> PROP...   -- runs checks with many seeds, prints only alarms and summaries
tier=$1; s0=$2; n=$3; shift 3
for ((s=s0; s<s0+n; s++)); do
  for p in "$@"; do
    out=$(VERIF_SEED=$s ./check $p $tier 2>&1); rc=$?
    echo "seed=$s $p rc=$rc $(echo "$out" | tail -1)"
    if [ $rc -ne 0 ]; then echo "$out" | grep -A3 -E "VIOLATION|HARNESS" | head -40; mkdir -p soak_replays; cp -r replays/* soak_replays/ 2>/dev/null; fi
  done
done
