"""Confirm an independently seeded change and run checks against it.
usage: seedcheck.py AGENT_DIR PID I [CHECK_IDS,comma] [--tests]
 1. scratch worktree /tmp/mut at /repo HEAD; the demonstration must pass (exit 0) on the clean tree
 2. apply the diff; the demonstration must fail (exit != 0)
 3. optionally run glue/core tests on the changed tree
 4. run ./check <ID> quick with VERIF_REPO=/tmp/mut for each ID; record exit codes and signatures
 5. store patch, demonstration, notes and meta.json under /verif/seeded/<PID>-<I>/ ; reset the scratch tree"""
import json, os, shutil, subprocess, sys
agent, pid, i = sys.argv[1:4]
prop = pid[:3]
ids = sys.argv[4].split(',') if len(sys.argv) > 4 and not sys.argv[4].startswith('--') else [prop]
run_tests = '--tests' in sys.argv
MUT = os.environ.get('MUTDIR', '/tmp/mut')
head = subprocess.check_output(['git', '-C', '/repo', 'rev-parse', 'HEAD']).decode().strip()
if not os.path.exists(MUT):
    subprocess.check_call(['git', '-C', '/repo', 'worktree', 'add', '-q', '--detach', MUT, 'HEAD'])
subprocess.check_call(['git', '-C', MUT, 'checkout', '-q', '--detach', head])
subprocess.check_call(['git', '-C', MUT, 'checkout', '-q', '--', '.'])
diff = os.path.join(agent, 'seeded_%s_%s.diff' % (pid, i))
demo = os.path.join(agent, 'demo_%s_%s.py' % (pid, i))
notes = os.path.join(agent, 'notes_%s_%s.txt' % (pid, i))
env = dict(os.environ, PYTHONPATH=MUT, MPLBACKEND='Agg')
import tempfile
DEMODIR = tempfile.mkdtemp(prefix='verif-demo-')      # neutral directory: the script's own directory is first on sys.path
shutil.copy(demo, os.path.join(DEMODIR, 'demo.py'))
def rundemo():
    r = subprocess.run(['/venv/bin/python', os.path.join(DEMODIR, 'demo.py')], cwd=DEMODIR, env=env, stdout=subprocess.PIPE, stderr=subprocess.STDOUT, timeout=600)
    return r.returncode, r.stdout.decode('utf-8', 'replace')[-600:]
meta = {'property': prop, 'index': int(i), 'repo_head': head}
rc0, out0 = rundemo()
meta['demo_on_clean_tree_exit'] = rc0
ap = subprocess.run(['git', '-C', MUT, 'apply', diff], stdout=subprocess.PIPE, stderr=subprocess.STDOUT)
meta['patch_applies'] = ap.returncode == 0
if ap.returncode != 0:
    print('PATCH DOES NOT APPLY', ap.stdout.decode()); sys.exit(2)
rc1, out1 = rundemo()
meta['demo_with_change_exit'] = rc1
meta['confirmed'] = rc0 == 0 and rc1 != 0
print('demo clean=%s changed=%s confirmed=%s' % (rc0, rc1, meta['confirmed']))
if run_tests:
    t = subprocess.run(['/venv/bin/python', '-m', 'pytest', '-q', '-p', 'no:cacheprovider', '-n', '12', 'glue/core'], cwd=MUT, env=env,
                       stdout=subprocess.PIPE, stderr=subprocess.STDOUT)
    tail = t.stdout.decode('utf-8', 'replace').strip().splitlines()[-1]
    meta['glue_core_tests'] = tail
    print('tests:', tail)
results = {}
for cid in ids:
    r = subprocess.run(['/verif/check', cid, 'quick'], env=dict(os.environ, VERIF_REPO=MUT, VERIF_MAX_MINIMISE='2'), stdout=subprocess.PIPE, stderr=subprocess.STDOUT)
    out = r.stdout.decode('utf-8', 'replace')
    sigs = [l.split('signature:')[1].strip() for l in out.splitlines() if 'signature:' in l]
    results[cid] = {'exit': r.returncode, 'signatures': sigs[:6]}
    print('check %s: exit %s %s' % (cid, r.returncode, sigs[:4]))
meta['checks_run'] = results
meta['caught_by'] = sorted(c for c, v in results.items() if v['exit'] == 1)
dst = '/verif/seeded/%s-%s' % (pid, i)
os.makedirs(dst, exist_ok=True)
shutil.copy(diff, os.path.join(dst, 'patch.diff'))
shutil.copy(demo, os.path.join(dst, 'demo.py'))
if os.path.exists(notes):
    meta['needs_to_manifest'] = open(notes).read()[:1500]
    shutil.copy(notes, os.path.join(dst, 'notes.txt'))
meta['what_was_run'] = 'tools/seedcheck.py: demo on clean scratch worktree, demo with patch applied, ./check <id> quick with VERIF_REPO=/tmp/mut'
json.dump(meta, open(os.path.join(dst, 'meta.json'), 'w'), indent=1)
subprocess.check_call(['git', '-C', MUT, 'checkout', '-q', '--', '.'])
shutil.rmtree(DEMODIR, ignore_errors=True)
