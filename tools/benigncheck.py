"""Run checks against a change that is meant to KEEP a property (false-alarm probe).
usage: benigncheck.py AGENT_DIR PID I [CHECK_IDS,comma] [--tier quick|thorough] [--tests]
 1. scratch worktree /tmp/mutb at /repo HEAD; apply AGENT_DIR/benign_<PID>_<I>.diff
 2. optionally run glue/core tests on the changed tree
 3. run ./check <ID> <tier> with VERIF_REPO=/tmp/mutb for each ID; every one must exit 0
 4. store patch, notes and meta.json under /verif/benign/<PID>-<I>/ ; reset the scratch tree
The verdict 'property still holds' is the author's argument (notes.txt) reviewed by the verifier; an alarm is triaged by hand."""
import json, os, shutil, subprocess, sys
agent, pid, i = sys.argv[1:4]
prop = pid[:3]
ids = sys.argv[4].split(',') if len(sys.argv) > 4 and not sys.argv[4].startswith('--') else [prop]
tier = sys.argv[sys.argv.index('--tier') + 1] if '--tier' in sys.argv else 'quick'
MUT = os.environ.get('MUTDIR', '/tmp/mutb')
head = subprocess.check_output(['git', '-C', '/repo', 'rev-parse', 'HEAD']).decode().strip()
if not os.path.exists(MUT):
    subprocess.check_call(['git', '-C', '/repo', 'worktree', 'add', '-q', '--detach', MUT, 'HEAD'])
subprocess.check_call(['git', '-C', MUT, 'checkout', '-q', '--detach', head])
subprocess.check_call(['git', '-C', MUT, 'checkout', '-q', '--', '.'])
subprocess.check_call(['git', '-C', MUT, 'clean', '-qfd'])
diff = os.path.join(agent, 'benign_%s_%s.diff' % (pid, i))
notes = os.path.join(agent, 'notes_%s_%s.txt' % (pid, i))
meta = {'property': prop, 'index': int(i), 'repo_head': head, 'kind': 'property-preserving change (false-alarm probe)'}
ap = subprocess.run(['git', '-C', MUT, 'apply', diff], stdout=subprocess.PIPE, stderr=subprocess.STDOUT)
if ap.returncode != 0:
    # written against an older HEAD: let git merge it (the blobs are in the shared object store)
    ap = subprocess.run(['git', '-C', MUT, 'apply', '--3way', diff], stdout=subprocess.PIPE, stderr=subprocess.STDOUT)
    subprocess.call(['git', '-C', MUT, 'reset', '-q'])
    meta['applied_with_3way_merge'] = True
if ap.returncode != 0:
    print('PATCH DOES NOT APPLY', ap.stdout.decode()); sys.exit(2)
if '--tests' in sys.argv:
    t = subprocess.run(['/venv/bin/python', '-m', 'pytest', '-q', '-p', 'no:cacheprovider', '-n', '12', 'glue/core'], cwd=MUT,
                       env=dict(os.environ, PYTHONPATH=MUT, MPLBACKEND='Agg'), stdout=subprocess.PIPE, stderr=subprocess.STDOUT)
    meta['glue_core_tests'] = t.stdout.decode('utf-8', 'replace').strip().splitlines()[-1]
    print('tests:', meta['glue_core_tests'])
results = {}
for cid in ids:
    r = subprocess.run(['/verif/check', cid, tier], env=dict(os.environ, VERIF_REPO=MUT, VERIF_MAX_MINIMISE='2'), stdout=subprocess.PIPE, stderr=subprocess.STDOUT)
    out = r.stdout.decode('utf-8', 'replace')
    sigs = [l.split('signature:')[1].strip() for l in out.splitlines() if 'signature:' in l]
    results[cid] = {'exit': r.returncode, 'signatures': sigs[:6]}
    print('check %s %s: exit %s %s' % (cid, tier, r.returncode, sigs[:4]))
    if r.returncode != 0:
        print(out[-1500:])
        os.makedirs('/tmp/benign_replays/%s-%s' % (pid, i), exist_ok=True)
        subprocess.call('cp /verif/replays/%s-* /tmp/benign_replays/%s-%s/ 2>/dev/null' % (cid, pid, i), shell=True)
meta['checks_run'] = results
meta['tier'] = tier
meta['quiet'] = all(v['exit'] == 0 for v in results.values())
meta['checks'] = ids
dst = '/verif/benign/%s-%s' % (pid, i)
os.makedirs(dst, exist_ok=True)
open(os.path.join(dst, 'patch.diff'), 'wb').write(subprocess.check_output(['git', '-C', MUT, 'diff']))
if os.path.exists(notes):
    shutil.copy(notes, os.path.join(dst, 'notes.txt'))
json.dump(meta, open(os.path.join(dst, 'meta.json'), 'w'), indent=1)
subprocess.check_call(['git', '-C', MUT, 'checkout', '-q', '--', '.'])
subprocess.check_call(['git', '-C', MUT, 'clean', '-qfd'])
print('quiet' if meta['quiet'] else 'ALARM')
