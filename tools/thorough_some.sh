#!/bin/bash
# usage: tools/thorough_some.sh ID...  -- the thorough tier of the named checks, one line each (background soak via vp run)
for p in "$@"; do
  t0=$(date +%s)
  out=$(VERIF_SEED=${VERIF_SEED:-0} ./check $p thorough 2>&1); rc=$?
  echo "$p thorough seed=${VERIF_SEED:-0} rc=$rc $(( $(date +%s) - t0 ))s $(echo "$out" | tail -1 | cut -c1-200)"
  if [ $rc -ne 0 ]; then echo "$out" | grep -A3 -E "VIOLATION|HARNESS" | head -40; mkdir -p /tmp/soak_replays; cp replays/$p-* /tmp/soak_replays/ 2>/dev/null; fi
done
