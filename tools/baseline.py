"""Run the pinned test suite (guard off) and compare with BASELINE.json's stable_pass list.
usage: baseline.py [repo_dir]   (exit 0 iff every stable_pass test passed)"""
import json, os, subprocess, sys, tempfile
import xml.etree.ElementTree as ET
repo = sys.argv[1] if len(sys.argv) > 1 else '/repo'
base = json.load(open('/root/.vp/BASELINE.json'))
out = tempfile.mktemp(suffix='.xml', prefix='verif-junit-')
env = dict(os.environ)
env.pop('GLUE_VIZ_GLUE_VERIF', None)
if repo != '/repo':
    env['PYTHONPATH'] = repo
cmd = ['/venv/bin/python', '-m', 'pytest', '-q', '-p', 'no:cacheprovider', '--timeout=900',
       '--continue-on-collection-errors', '-n', os.environ.get('VERIF_TEST_WORKERS', '12'), '--junitxml=' + out]
p = subprocess.run(cmd, cwd=repo, env=env, stdout=subprocess.PIPE, stderr=subprocess.STDOUT)
tail = p.stdout.decode('utf-8', 'replace').strip().splitlines()[-3:]
passed = set()
for tc in ET.parse(out).getroot().iter('testcase'):
    if not any(ch.tag in ('failure', 'error', 'skipped') for ch in tc):
        passed.add('%s::%s' % (tc.get('classname'), tc.get('name')))
os.remove(out)
missing = [t for t in base['stable_pass'] if t not in passed]
if missing and len(missing) <= 40:
    # tests that only fail under xdist (shared matplotlib state) are re-run serially, as the pinned command does
    ids = []
    for t in missing:
        cls, name = t.split('::', 1)
        parts = cls.split('.')
        for i in range(len(parts), 0, -1):
            f = os.path.join(repo, *parts[:i]) + '.py'
            if os.path.exists(f):
                ids.append('::'.join([os.path.join(*parts[:i]) + '.py'] + parts[i:] + [name]))
                break
    out2 = tempfile.mktemp(suffix='.xml', prefix='verif-junit-')
    subprocess.run(['/venv/bin/python', '-m', 'pytest', '-q', '-p', 'no:cacheprovider', '--timeout=900', '--junitxml=' + out2] + ids,
                   cwd=repo, env=env, stdout=subprocess.PIPE, stderr=subprocess.STDOUT)
    for tc in ET.parse(out2).getroot().iter('testcase'):
        if not any(ch.tag in ('failure', 'error', 'skipped') for ch in tc):
            passed.add('%s::%s' % (tc.get('classname'), tc.get('name')))
    os.remove(out2)
    print('re-ran %d tests serially' % len(ids))
    missing = [t for t in base['stable_pass'] if t not in passed]
print('\n'.join(tail))
print('stable_pass: %d, passed now: %d, missing: %d' % (len(base['stable_pass']), len(passed), len(missing)))
for m in missing[:20]:
    print('  NOT PASSING:', m)
sys.exit(1 if missing else 0)
