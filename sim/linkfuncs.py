"""Module-level link functions (importable, so sessions that use them can be saved).
All are exact on small-integer valued float arrays."""
import numpy as np


def mul2(x):
    return x * 2


def div2(x):
    return x / 2


def add3(x):
    return x + 3


def sub3(x):
    return x - 3


def mul4(x):
    return x * 4


def div4(x):
    return x / 4


def neg(x):
    return -x


def sum2(a, b):
    return a + b


def amb(a, b):
    return a - 2 * b


ONE = {'mul2': (mul2, div2), 'add3': (add3, sub3), 'mul4': (mul4, div4), 'neg': (neg, neg),
       'div2': (div2, mul2), 'sub3': (sub3, add3)}
TWO = {'sum2': sum2, 'amb': amb}


def _namesake(name, k):
    """A function that carries the qualified name of one of the functions above without being it (a closure from a factory,
    or a function that was redefined after it was used): a session that uses it cannot name it faithfully."""
    def f(x):
        return x * k + 1
    f.__name__ = name
    f.__qualname__ = name
    f.__module__ = __name__
    return f


NAMESAKES = {'mul2': _namesake('mul2', 5.0), 'add3': _namesake('add3', 7.0)}
