"""C17 - a dataset stays structurally consistent and announces every structural change.

Engine E2, oracle (C).  Histories over the whole Data mutation API with valid *and invalid* arguments
(K4: calls rejected after they have begun to act), on datasets inside and outside a collection, inside
and outside hub delay windows (K2), with a recording listener on the hub.  After every quiescent step:
structural invariants on the real object, and the multiset of structural messages received since the
last quiescent point must equal the diff of the before/after snapshots.
"""
import numpy as np

from sim.core import Violation
from sim import world as W
from sim import linkfuncs as LF

PROP = 'C17'
TIERS = {
    'quick': {'runs': 6400, 'blocks': 16, 'max_ops': 26},
    'thorough': {'runs': 128000, 'blocks': 64, 'max_ops': 60},
}
RULE = ('Each run: 1-2 datasets (1-3-d; optional coordinates; inside a collection with a recording hub listener, or outside any collection) and a '
        'seeded history of add (array / Component / derived; right and wrong shape; derived as first component), remove (with cascade), '
        'reorder (valid / wrong set / wrong length), rename, update_id, update_components (valid / wrong shape / valid-then-wrong in one call), '
        'update_values_from_data (same shape / new shape; extra and missing labels), set / replace / remove coordinates, set label, open / close '
        'hub delay windows. Non-trivial: >=1 step changed the structure and was compared. distinct_nontrivial counts distinct (op kind, outcome, '
        'ndim, #components bucket, coords?, in-collection?, delay depth, diff shape) fingerprints.')
EXPLANATION = ('Invariants: every component has the dataset shape; exactly ndim pixel ids, ndim world ids iff coordinates are set, all listed in '
               'components; identifiers unique; order of surviving identifiers unchanged except by reorder; find_component_id(label) returns the '
               'unique match by the documented precedence or None. Announcements (datasets in a collection, at quiescence): added ids <-> '
               'DataAddComponentMessage, removed ids <-> DataRemoveComponentMessage, ComponentsChangedMessage iff the id set changed, order change '
               '<-> DataReorderComponentMessage with the new order, label change <-> DataRenameComponentMessage, update_id <-> '
               'ComponentReplacedMessage(old, new), value change <-> NumericalDataChangedMessage, dataset label <-> DataUpdateMessage(label); every '
               'message carries the dataset and the component it is about. Rejected calls must leave the invariants intact.')
REAL = ['glue.core.data.Data mutation API', 'glue.core.component_id', 'glue.core.message', 'glue.core.hub', 'glue.core.registry', 'glue.core.coordinates']
STUB = ['recording HubListener', 'uuid and identity-hash streams']
ASSUMPTIONS = ['messages are compared only when no delay window is open', 'sampling, not proof']
PROBES = ['rejected_add_wrong_shape', 'rejected_reorder', 'rejected_update_wrong_shape', 'partial_update_then_reject', 'cascade_remove', 'coords_replaced',
          'coords_removed', 'update_from_new_shape', 'update_from_label_mismatch', 'ops_in_delay_window', 'outside_collection', 'rename', 'update_id', 'joined_collection_later', 'identifier_of_rejected_add_reused', 'flipflop_reorder', 'flipflop_remove_add', 'flipflop_update_id', 'update_id_of_coordinate', 'rename_of_coordinate', 'duplicate_label', 'update_from_disjoint_labels', 'dataset_emptied', 'partial_update_then_foreign_identifier']

WEIGHTS = {'add': 5, 'add_bad': 1.5, 'add_derived': 3, 'remove': 3, 'reorder': 2, 'reorder_bad': 1, 'rename': 2, 'update_id': 1.5, 'upd': 3, 'upd_bad': 1,
           'upd_partial': 1, 'upd_from': 2, 'coords': 2, 'label': 1, 'delay_open': 1, 'delay_close': 1.5, 'new': 0.7, 'append': 1, 'flipflop': 1.2}


def generate(rng, cfg, guards):
    n = rng.randrange(4, cfg['max_ops'] + 1)
    w = {}
    for k, v in sorted(WEIGHTS.items()):
        if k in ('add', 'remove') or rng.chance(0.8):
            w[k] = v * rng.pick([0.5, 1, 2])
    pairs = sorted(w.items())
    r8 = lambda: rng.randrange(8)
    ops = [['new', rng.randrange(len(W.SHAPES)), rng.randrange(1, 3), rng.randrange(10000), rng.pick([0, 0, 1, 2]), rng.chance(0.75)]]
    allow_ndim = 'C17-update-ndim' not in guards
    while len(ops) < n:
        k = rng.wpick(pairs)
        if k == 'new':
            ops.append(['new', rng.randrange(len(W.SHAPES)), rng.randrange(1, 3), rng.randrange(10000), rng.pick([0, 0, 1, 2]), rng.chance(0.75)])
        elif k in ('add', 'add_bad'):
            ops.append([k, r8(), rng.randrange(10000), rng.pick(['array', 'component']), rng.pick([None, None, 'cid', 'cid', 'reuse'])])
            if k == 'add' and ops[-1][4] == 'reuse' and rng.chance(0.6):
                ops.append(['rename', ops[-1][1], -1])
        elif k == 'add_derived':
            ops.append([k, r8(), r8(), rng.pick(sorted(LF.ONE))])
        elif k == 'remove':
            ops.append([k, r8(), r8()])
        elif k == 'update_id':
            ops.append([k, r8(), r8(), rng.chance(0.3)])
            while rng.chance(0.3):
                ops.append([k, ops[-1][1], -1, False])      # the identifier just installed is replaced again
        elif k == 'reorder':
            ops.append([k, r8(), rng.randrange(10000)])
        elif k == 'reorder_bad':
            ops.append([k, r8(), rng.pick(['short', 'foreign', 'dup'])])
        elif k == 'rename':
            # a quarter of the renames give the label another attribute of the dataset already has (labels need not be unique)
            ops.append([k, r8(), r8(), rng.chance(0.25), rng.pick([None, None, None, r8()])])
        elif k in ('upd', 'upd_bad', 'upd_partial'):
            ops.append([k, r8(), r8(), rng.randrange(10000)])
        elif k == 'upd_from':
            ops.append([k, r8(), rng.randrange(10000), rng.pick(['same', 'same', 'shape', 'ndim' if allow_ndim else 'shape']),
                        rng.pick(['same', 'same', 'extra', 'missing', 'disjoint'])])
        elif k == 'coords':
            ops.append([k, r8(), rng.pick([0, 1, 2])])
        elif k == 'label':
            ops.append([k, r8(), r8()])
        elif k == 'delay_open':
            ops.append([k, 'hub'])
        elif k == 'append':
            ops.append(['append', r8()])
        elif k == 'flipflop':
            # a change, its inverse, the change again ... on the same identifier objects (toggling a setting back and forth),
            # half of the time inside one hub delay window
            ff = [k, r8(), rng.pick(['reorder', 'remove_add', 'update_id']), rng.pick([2, 3, 3, 4]), r8(), rng.randrange(10000)]
            if rng.chance(0.5):
                ops.extend([['delay_open', 'hub'], ff, ['delay_close', False]])
            else:
                ops.append(ff)
        else:
            ops.append(['delay_close', rng.chance(0.2)])
    if rng.chance(0.15):
        # a dataset is emptied of its own attributes one by one (it keeps its shape and its axes) and filled again
        h, at = r8(), rng.randrange(1, len(ops) + 1)
        ops[at:at] = [['remove', h, r8(), True] for _ in range(rng.randrange(3, 8))] + \
            [['add_bad', h, rng.randrange(10000), 'array', None], ['add', h, rng.randrange(10000), rng.pick(['array', 'component']), None]]
    return {'knobs': {'guards': list(guards), 'prop': PROP}, 'ops': ops}


def snap(d):
    out = []
    for c in d.components:
        try:
            dig = W.arr_digest(d[c])
            shp = tuple(np.asarray(d[c]).shape)
        except Exception as e:
            dig, shp = 'error:%s' % type(e).__name__, None
        out.append((c, c.label, dig, shp))
    return {'comps': out, 'label': d.label, 'shape': tuple(d.shape)}


def check_invariants(d, where):
    comps = list(d.components)
    for i, c in enumerate(comps):
        if any(c is x for x in comps[:i]):
            raise Violation('C17/duplicate-identifier/%s' % where, c.label)
    for c in comps:
        try:
            shp = tuple(np.asarray(d[c]).shape)
        except Exception as e:
            raise Violation('C17/component-unreadable/%s' % where, '%s: %s: %s' % (c.label, type(e).__name__, e))
        if shp != tuple(d.shape):
            raise Violation('C17/component-shape-differs/%s' % where, '%s has shape %s, dataset %s' % (c.label, shp, d.shape))
    pix, wor = list(d.pixel_component_ids), list(d.world_component_ids)
    if len(pix) != d.ndim:
        raise Violation('C17/pixel-ids!=ndim/%s' % where, '%d pixel ids for %d dimensions' % (len(pix), d.ndim))
    if len(wor) != (d.ndim if d.coords is not None else 0):
        raise Violation('C17/world-ids-vs-coords/%s' % where, '%d world ids, ndim %d, coords %s' % (len(wor), d.ndim, type(d.coords).__name__))
    for c in pix + wor:
        if not any(c is x for x in comps):
            raise Violation('C17/coordinate-id-not-listed/%s' % where, c.label)
    # lookup by name: unique match by precedence main > derived > coordinate, else None
    labels = set(c.label for c in comps)
    for lab in sorted(labels):
        exp = None
        for group in (d.main_components, d.derived_components, d.coordinate_components):
            hits = [c for c in group if c.label == lab]
            if len(hits) == 1:
                exp = hits[0]
                break
            if len(hits) > 1:
                exp = None
                break
        got = d.find_component_id(lab)
        if got is not exp:
            raise Violation('C17/lookup-by-name-wrong/%s' % where, 'label %r: expected %r got %r' % (lab, exp, got))
    if d.find_component_id('no-such-label-xyz') is not None:
        raise Violation('C17/lookup-by-name-wrong/%s' % where, 'unknown label resolved')


def make_listener(hub, sink):
    from glue.core.hub import HubListener
    from glue.core.message import DataMessage

    class Recorder(HubListener):
        def notify(self, msg):
            sink.append(msg)
    r = Recorder()
    hub.subscribe(r, DataMessage)
    return r


def describe(msg):
    n = type(msg).__name__
    if n in ('DataAddComponentMessage', 'DataRemoveComponentMessage', 'DataRenameComponentMessage'):
        return (n, id(msg.data), id(msg.component_id))
    if n == 'ComponentReplacedMessage':
        return (n, id(msg.data), id(msg.old), id(msg.new))
    if n == 'DataReorderComponentMessage':
        return (n, id(msg.data), tuple(id(c) for c in msg.component_ids))
    if n == 'DataUpdateMessage':
        return (n, id(msg.data), msg.attribute)
    return (n, id(msg.data))


def execute(case, res):
    from glue.core.data import Data
    from glue.core.component import Component
    from glue.core.component_id import ComponentID
    from glue.core.component_link import ComponentLink
    from glue.core.exceptions import IncompatibleAttribute
    w = W.World(case['knobs'], res, None)
    sink = []
    rec = make_listener(w.hub, sink)
    datasets = []       # all datasets under test (in collection or not)
    keep = []
    nname = [0]
    base = {}
    replaces = []
    rejected = []
    last_added = [None]
    last_new = [None]

    def pick(h):
        return datasets[h % len(datasets)] if datasets else None

    def own(d):
        return [c for c in d.main_components + d.derived_components]

    for op in case['ops']:
        k = op[0]
        res.nops += 1
        for d in datasets:
            keep.extend(c for c in d.components if not any(c is x for x in keep[-60:]))
        if w.quiescent():
            base = dict((id(d), snap(d)) for d in datasets)
            del sink[:]
            replaces = []
        outcome = 'ok'
        target = None
        if w.cms and k not in ('delay_open', 'delay_close', 'new'):
            res.probe('ops_in_delay_window')
        try:
            if k == 'new':
                d = w.new_data(op[1], op[2], op[3], cat=False, coords=op[4])
                datasets.append(d)
                if op[5]:
                    w.dc.append(d)
                else:
                    res.probe('outside_collection')
                if w.quiescent():
                    base[id(d)] = snap(d)
                    del sink[:]
            elif k == 'append':
                d = pick(op[1])
                if d is None or any(d is x for x in w.dc):
                    continue
                w.dc.append(d)          # a dataset that was mutated outside any collection joins it: from now on it must announce
                res.probe('joined_collection_later')
                # what happened to it before it had a hub could not be announced: the comparison starts here
                base[id(d)] = snap(d)
                replaces[:] = [r for r in replaces if r[0] is not d]
            elif k in ('add', 'add_bad'):
                d = target = pick(op[1])
                if d is None:
                    continue
                nname[0] += 1
                shape = d.shape if k == 'add' else tuple(s + 1 for s in d.shape)
                arr = W.values(op[2], shape)
                obj = Component(arr) if op[3] == 'component' else arr
                how = op[4] if len(op) > 4 else None
                label = 'n%d' % nname[0]
                if how == 'reuse' and rejected:
                    # an identifier object that another add_component call has refused before
                    label = rejected.pop()
                    res.probe('identifier_of_rejected_add_reused')
                elif how in ('cid', 'reuse'):
                    label = ComponentID(label)
                    keep.append(label)
                try:
                    d.add_component(obj, label)
                    if k == 'add' and isinstance(label, ComponentID):
                        last_added[0] = label
                    if k == 'add_bad':
                        raise Violation('C17/wrong-shape-accepted/add', 'component of shape %s added to dataset of shape %s' % (shape, d.shape))
                except ValueError:
                    if k == 'add':
                        raise
                    outcome = 'rejected'
                    if isinstance(label, ComponentID):
                        rejected.append(label)
                    res.probe('rejected_add_wrong_shape')
                    res.fault('rejected_call')
            elif k == 'add_derived':
                d = target = pick(op[1])
                if d is None:
                    continue
                cs = [c for c in d.components if d.get_kind(c) == 'numerical']
                if not cs:
                    continue
                nname[0] += 1
                d.add_component_link(ComponentLink([cs[op[2] % len(cs)]], ComponentID('v%d' % nname[0], parent=d), using=LF.ONE[op[3]][0]))
            elif k == 'remove':
                d = target = pick(op[1])
                if d is None:
                    continue
                cs = own(d)
                force = len(op) > 3 and op[3]       # the last attribute of its own may go too
                if not cs or (not force and len(d.main_components) <= 1 and not d.derived_components):
                    continue
                c = cs[op[2] % len(cs)]
                if c in d.main_components and len(d.main_components) == 1:
                    if not force:
                        continue
                    res.probe('dataset_emptied')
                n0 = len(d.components)
                d.remove_component(c)
                if n0 - len(d.components) > 1:
                    res.probe('cascade_remove')
            elif k == 'reorder':
                d = target = pick(op[1])
                if d is None:
                    continue
                cs = list(d.components)
                perm = np.random.RandomState(op[2]).permutation(len(cs))
                d.reorder_components([cs[i] for i in perm])
            elif k == 'reorder_bad':
                d = target = pick(op[1])
                if d is None:
                    continue
                cs = list(d.components)
                if op[2] == 'short':
                    bad = cs[:-1]
                elif op[2] == 'foreign':
                    bad = cs[:-1] + [ComponentID('foreign')]
                else:
                    bad = cs[:-1] + [cs[0]]
                try:
                    d.reorder_components(bad)
                    raise Violation('C17/invalid-reorder-accepted/%s' % op[2], 'no error')
                except ValueError:
                    outcome = 'rejected'
                    res.probe('rejected_reorder')
                    res.fault('rejected_call')
            elif k == 'rename':
                d = target = pick(op[1])
                if d is None:
                    continue
                cs = own(d)
                if len(op) > 3 and op[3]:
                    cs = list(d.pixel_component_ids) + list(d.world_component_ids)      # axes can be given other names too
                    res.probe('rename_of_coordinate')
                nname[0] += 1
                if not cs:
                    continue
                c = cs[op[2] % len(cs)]
                if op[2] == -1 and last_added[0] is not None and any(last_added[0] is x for x in cs):
                    c = last_added[0]
                allc = list(d.components)
                if len(op) > 4 and op[4] is not None and allc[op[4] % len(allc)].label != c.label:
                    # (assigning the label an identifier already has is announced by glue as a rename; whether that is a
                    # change is a matter of taste and not generated)
                    c.label = allc[op[4] % len(allc)].label
                    if sum(1 for x in allc if x.label == c.label) > 1:
                        res.probe('duplicate_label')
                else:
                    c.label = 'r%d' % nname[0]
                res.probe('rename')
            elif k == 'update_id':
                d = target = pick(op[1])
                if d is None:
                    continue
                cs = list(d.main_components)
                if len(op) > 3 and op[3]:
                    # pixel and world attributes can be re-identified as well
                    cs = list(d.pixel_component_ids) + list(d.world_component_ids)
                    res.probe('update_id_of_coordinate')
                if not cs:
                    continue
                old = cs[op[2] % len(cs)]
                if op[2] == -1:
                    if last_new[0] is None or not any(last_new[0] is x for x in d.components):
                        continue
                    old = last_new[0]
                nname[0] += 1
                new = ComponentID('u%d' % nname[0])
                last_new[0] = new
                keep.append(new)
                if 'C17-update-id-derived' in w.guards and any(
                        any(old is f for f in d.get_component(x).link.get_from_ids()) for x in d.derived_components):
                    continue
                d.update_id(old, new)
                replaces.append((d, old, new))
                res.probe('update_id')
            elif k == 'flipflop':
                d = target = pick(op[1])
                if d is None:
                    continue
                kind, times = op[2], op[3]
                if kind == 'reorder':
                    cs = list(d.components)
                    perm = np.random.RandomState(op[5]).permutation(len(cs))
                    other = [cs[i] for i in perm]
                    for i in range(times):
                        d.reorder_components(other if i % 2 == 0 else cs)
                elif kind == 'remove_add':
                    mains = [c for c in d.main_components]
                    if len(mains) < 2:
                        continue
                    c = mains[op[4] % len(mains)]
                    if any(any(c is f for f in d.get_component(x).link.get_from_ids()) for x in d.derived_components):
                        continue        # removing it would cascade; the plain alternation is what is wanted here
                    comp = d.get_component(c)
                    for i in range(times):
                        if i % 2 == 0:
                            d.remove_component(c)
                        else:
                            d.add_component(comp, c)
                else:
                    mains = list(d.main_components)
                    if not mains:
                        continue
                    a = mains[op[4] % len(mains)]
                    if any(any(a is f for f in d.get_component(x).link.get_from_ids()) for x in d.derived_components):
                        continue
                    nname[0] += 1
                    z = ComponentID('z%d' % nname[0])
                    keep.append(z)
                    for i in range(times):
                        o, n_ = (a, z) if i % 2 == 0 else (z, a)
                        d.update_id(o, n_)
                        replaces.append((d, o, n_))
                res.probe('flipflop_' + kind)
            elif k in ('upd', 'upd_bad', 'upd_partial'):
                d = target = pick(op[1])
                if d is None:
                    continue
                cs = [c for c in d.main_components if d.get_kind(c) == 'numerical']
                if not cs:
                    continue
                c = cs[op[2] % len(cs)]
                if k == 'upd':
                    d.update_components({c: W.values(op[3], d.shape)})
                else:
                    wrong = W.values(op[3], tuple(s + 1 for s in d.shape))
                    mapping = {c: wrong}
                    if k == 'upd_partial' and len(cs) > 1:
                        c2 = cs[(op[2] + 1) % len(cs)]
                        mapping = {c2: W.values(op[3] + 1, d.shape), c: wrong}      # a valid entry first, then the invalid one
                        res.probe('partial_update_then_reject')
                        if op[3] % 3 == 0:
                            # ... or the invalid one is an identifier the dataset does not have
                            foreign = ComponentID('foreign')
                            keep.append(foreign)
                            mapping = {c2: W.values(op[3] + 1, d.shape), foreign: W.values(op[3], d.shape)}
                            res.probe('partial_update_then_foreign_identifier')
                    try:
                        d.update_components(mapping)
                        raise Violation('C17/wrong-shape-accepted/update_components', 'no error')
                    except (ValueError, IncompatibleAttribute, KeyError):
                        outcome = 'rejected'
                        res.probe('rejected_update_wrong_shape')
                        res.fault('rejected_call')
            elif k == 'upd_from':
                d = target = pick(op[1])
                if d is None or d.derived_components:
                    continue
                shape = d.shape
                if op[3] == 'shape':
                    cands = [s for s in W.SHAPES if len(s) == d.ndim and s != d.shape]
                    shape = cands[op[2] % len(cands)] if cands else d.shape
                    res.probe('update_from_new_shape')
                elif op[3] == 'ndim':
                    cands = [s for s in W.SHAPES if len(s) != d.ndim]
                    shape = cands[op[2] % len(cands)]
                other = Data(label=d.label)
                labels = [c.label for c in d.main_components]
                if not labels or len(set(labels)) != len(labels) or len(set(c.label for c in d.components)) != len(d.components):
                    continue        # refreshing a dataset with ambiguous labels is refused by glue (documented ValueError)
                if op[4] == 'disjoint':
                    # no attribute in common: everything the dataset has is replaced
                    labels = ['y%d_%d' % (nname[0], j) for j in range(len(labels))]
                    nname[0] += 1
                    res.probe('update_from_disjoint_labels')
                if op[4] == 'missing' and len(labels) > 1:
                    labels = labels[:-1]
                    res.probe('update_from_label_mismatch')
                for j, lab in enumerate(labels):
                    other.add_component(W.values(op[2] + j, shape), lab)
                if op[4] == 'extra':
                    nname[0] += 1
                    other.add_component(W.values(op[2] + 50, shape), 'x%d' % nname[0])
                    res.probe('update_from_label_mismatch')
                other.coords = W.make_coords({'IdentityCoordinates': 1, 'AffineCoordinates': 2}.get(type(d.coords).__name__, 0), len(shape)) \
                    if d.coords is not None else None
                d.update_values_from_data(other)
            elif k == 'coords':
                d = target = pick(op[1])
                if d is None:
                    continue
                had = d.coords is not None
                d.coords = W.make_coords(op[2], d.ndim) if op[2] else None
                if had and op[2]:
                    res.probe('coords_replaced')
                if had and not op[2]:
                    res.probe('coords_removed')
            elif k == 'label':
                d = target = pick(op[1])
                if d is None:
                    continue
                nname[0] += 1
                d.label = 'L%d' % nname[0]
            else:
                out = W.exec_common(w, op)
                if out is None:
                    raise ValueError(op)
        except W.OpCrash as e:
            raise Violation('C17/crash/%s:%s' % (k, type(e.exc).__name__), str(e))
        except Violation:
            raise
        except Exception as e:
            tag = ('upd_from[ndim]' if op[3] == 'ndim' else 'upd_from[%s,%s]' % (op[3], op[4])) if k == 'upd_from' else k
            raise Violation('C17/crash/%s:%s' % (tag, type(e).__name__), 'a valid call raised %s: %s' % (type(e).__name__, str(e)[:200]))
        if k == 'upd_from':
            k = 'upd_from[ndim]' if op[3] == 'ndim' else 'upd_from[%s,%s]' % (op[3], op[4])
        res.log.append([k, outcome, len(w.cms)])
        # ---- invariants (always), announcements (at quiescence, datasets in the collection)
        for d in datasets:
            check_invariants(d, '%s:%s' % (k, outcome))
            res.nchecks += 1
        if not w.quiescent():
            continue
        for d in datasets:
            b = base.get(id(d))
            if b is None:
                continue
            a = snap(d)
            in_dc = any(d is x for x in w.dc)
            compare_step(d, b, a, sink if in_dc else None, k, outcome, res, w, [(o, n) for dd, o, n in replaces if dd is d])
        res.log.append(['state', [[c.label for c in d.components] for d in datasets]])


def compare_step(d, b, a, sink, k, outcome, res, w, replaced):
    bid = [c for c, _, _, _ in b['comps']]
    aid = [c for c, _, _, _ in a['comps']]
    olds = [o for o, n in replaced]
    news = [n for o, n in replaced]
    # an identifier replaced by update_id is announced by ComponentReplacedMessage, not as a removal plus an addition
    added = [c for c in aid if not any(c is x for x in bid) and not any(c is x for x in news)]
    removed = [c for c in bid if not any(c is x for x in aid) and not any(c is x for x in olds)]
    common_b = [c for c in bid if any(c is x for x in aid)]
    common_a = [c for c in aid if any(c is x for x in bid)]
    reordered = any(x is not y for x, y in zip(common_b, common_a))
    bl = dict((id(c), (lab, dig)) for c, lab, dig, _ in b['comps'])
    renamed = [c for c, lab, _, _ in a['comps'] if id(c) in bl and bl[id(c)][0] != lab]
    changed_vals = [c for c, _, dig, _ in a['comps'] if id(c) in bl and bl[id(c)][1] != dig]
    where = '%s:%s' % (k, outcome)
    if reordered and not k.startswith(('reorder', 'upd_from', 'delay_close', 'flipflop')):
        raise Violation('C17/order-not-stable/%s' % where, 'before %s after %s' % ([c.label for c in common_b], [c.label for c in common_a]))
    structural = bool(added or removed or reordered or renamed or changed_vals or b['label'] != a['label'] or b['shape'] != a['shape'])
    if structural:
        res.nontrivial = True
    res.fp(k, outcome, d.ndim, min(len(aid), 8), d.coords is not None, sink is not None, len(w.cms),
           [len(added), len(removed), reordered, len(renamed), bool(changed_vals)])
    if sink is None:
        return
    msgs = [describe(m) for m in sink if m.data is d]
    names = [m[0] for m in msgs]
    # ---- a client that only listens: replaying the announcements in the order received, from the component list at the last
    # quiescent point, must arrive at the present component list (this is what matters when a delay window sums up several
    # operations: each change announced, in order, none dropped as a "duplicate")
    mirror = list(bid)
    order_msg = None
    for m in sink:
        if m.data is not d:
            continue
        n = type(m).__name__
        if n == 'DataAddComponentMessage':
            if not any(m.component_id is x for x in mirror):
                mirror.append(m.component_id)
            order_msg = None
        elif n == 'DataRemoveComponentMessage':
            mirror = [x for x in mirror if x is not m.component_id]
            order_msg = None
        elif n == 'ComponentReplacedMessage':
            mirror = [m.new if x is m.old else x for x in mirror]
            if order_msg is not None:
                order_msg = [m.new if x is m.old else x for x in order_msg]
        elif n == 'DataReorderComponentMessage':
            order_msg = list(m.component_ids)
    res.nchecks += 1
    if len(mirror) != len(aid) or any(not any(x is y for y in aid) for x in mirror):
        raise Violation('C17/replayed-announcements-differ/%s' % where, 'a listener replaying the announcements holds %s, the dataset %s' % (
            [c.label for c in mirror], [c.label for c in aid]))
    if order_msg is not None and (len(order_msg) != len(aid) or any(x is not y for x, y in zip(order_msg, aid))):
        raise Violation('C17/replayed-announcements-differ/order:%s' % where, 'the last DataReorderComponentMessage carries %s, the dataset has %s' % (
            [c.label for c in order_msg], [c.label for c in aid]))

    def count(name, *rest):
        return sum(1 for m in msgs if m[0] == name and m[2:2 + len(rest)] == rest)

    for c in added:
        n = count('DataAddComponentMessage', id(c))
        if (n != 1 if not k.startswith(('delay_close', 'flipflop')) else n < 1) and not any(c is x for x in removed):
            raise Violation('C17/add-not-announced-once/%s' % where, 'component %s added, %d DataAddComponentMessage' % (c.label, n))
    for c in removed:
        n = count('DataRemoveComponentMessage', id(c))
        if (n != 1 if not k.startswith(('delay_close', 'flipflop')) else n < 1):
            raise Violation('C17/remove-not-announced-once/%s' % where, 'component %s removed, %d DataRemoveComponentMessage' % (c.label, n))
    transient = set()
    # a step that closes a delay window sums up several operations: an identifier can have been added, renamed, replaced
    # and removed inside it, so only the net requirements above are checked there, not "nothing else was announced"
    strict = not k.startswith(('delay_close', 'flipflop'))
    for m in (msgs if strict else []):
        if m[0] == 'DataAddComponentMessage' and not any(m[2] == id(c) for c in added):
            if count('DataRemoveComponentMessage', m[2]) >= 1:
                transient.add(m[2])      # added and removed again within the step (e.g. world components during a coords change)
                continue
            raise Violation('C17/add-announced-but-absent/%s' % where, 'DataAddComponentMessage for a component that is not new')
        if m[0] == 'DataRemoveComponentMessage' and not any(m[2] == id(c) for c in removed) and m[2] not in transient:
            if count('DataAddComponentMessage', m[2]) >= 1:
                continue
            raise Violation('C17/remove-announced-but-present/%s' % where, 'DataRemoveComponentMessage for a component that was not removed')
    idset_changed = bool(added or removed or replaced)
    ncc = sum(1 for n in names if n in ('ComponentsChangedMessage', 'ComponentReplacedMessage'))
    if idset_changed and ncc == 0:
        raise Violation('C17/components-changed-not-announced/%s' % where, 'added %s removed %s' % ([c.label for c in added], [c.label for c in removed]))
    if not idset_changed and ncc > 0 and not transient and strict:
        raise Violation('C17/components-changed-announced-without-change/%s' % where, '%d messages' % ncc)
    for o, n in replaced:
        nrep = count('ComponentReplacedMessage', id(o), id(n))
        if (nrep != 1 if strict else nrep < 1):
            raise Violation('C17/replace-not-announced/%s' % where, 'update_id without exactly one ComponentReplacedMessage(old, new)')
    if not replaced and 'ComponentReplacedMessage' in names and strict:
        raise Violation('C17/replace-announced-without-update-id/%s' % where, '')
    nre = names.count('DataReorderComponentMessage')
    if reordered and k == 'reorder':
        if nre != 1 or count('DataReorderComponentMessage', tuple(id(c) for c in aid)) != 1:
            raise Violation('C17/reorder-not-announced/%s' % where, '%d DataReorderComponentMessage (or wrong order carried)' % nre)
    if not reordered and nre and len(w.cms) == 0 and k == 'reorder':
        raise Violation('C17/reorder-announced-without-change/%s' % where, '')
    for c in renamed:
        if count('DataRenameComponentMessage', id(c)) < 1:
            raise Violation('C17/rename-not-announced/%s' % where, c.label)
    for m in (msgs if strict else []):
        if m[0] == 'DataRenameComponentMessage' and not any(m[2] == id(c) for c in renamed):
            raise Violation('C17/rename-announced-without-change/%s' % where, '')
    nnum = names.count('NumericalDataChangedMessage')
    if changed_vals and nnum == 0 and not (added or removed):
        raise Violation('C17/value-change-not-announced/%s' % where, 'values of %s changed without NumericalDataChangedMessage' % [c.label for c in changed_vals])
    if b['shape'] != a['shape'] and nnum == 0:
        raise Violation('C17/value-change-not-announced/%s' % where, 'shape changed %s -> %s without NumericalDataChangedMessage' % (b['shape'], a['shape']))
    if nnum and not changed_vals and not k.startswith(('upd', 'delay_close')) and b['shape'] == a['shape']:
        raise Violation('C17/value-change-announced-without-change/%s' % where, '')
    nlab = count('DataUpdateMessage', 'label')
    if (b['label'] != a['label']) != (nlab > 0) and k != 'delay_close':
        raise Violation('C17/label-announcement-wrong/%s' % where, 'label %r -> %r, %d DataUpdateMessage(label)' % (b['label'], a['label'], nlab))
