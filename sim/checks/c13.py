"""C13 - undo restores the previous session state, redo the undone one.

Engine E2.  Command histories through Application.do/undo/redo over AddData,
RemoveData, ApplySubsetState (all edit modes), ApplyROI, with arbitrary
undo/redo interleavings, long runs for the history bound, and restarts.
Oracle: a stack of user-visible snapshots kept by the harness.
"""
import gc
import shutil
import tempfile

from sim.core import Violation
from sim import world as W

PROP = 'C13'
TIERS = {
    'quick': {'runs': 6400, 'blocks': 16, 'max_ops': 30},
    'thorough': {'runs': 128000, 'blocks': 64, 'max_ops': 90},
}
RULE = ('Each run is one seeded history over {new dataset (pool), do AddData, do RemoveData, do ApplySubsetState '
        '(generated selection, edit mode Replace/And/Or/Xor/AndNot/New or session default), do ApplyROI, undo, redo, '
        'change edit-subset choice, change edit mode, restart}; 8% of runs are long (60-75 commands) to reach the '
        'history bound. Non-trivial: at least one undo or redo was compared against a snapshot. distinct_nontrivial '
        'counts distinct (op kind, command kind undone/redone, #datasets, #groups, undo depth, redo depth, '
        'edit-subset size) fingerprints at comparisons.')
EXPLANATION = ('Snapshot = datasets in the collection (by identity, order-insensitive), subset groups in order with label, '
               'style and the mask of the group on every dataset (or "incompatible"), the edit-subset choice as indices '
               'into dc.subset_groups. After undo the snapshot must equal the one taken before the command, after redo '
               'the one taken after it; can_undo_redo() must match the model; undo beyond 50 commands must raise.')
REAL = ['glue.core.command', 'glue.core.session', 'glue.core.edit_subset_mode', 'glue.core.data_collection',
        'glue.core.subset_group', 'glue.core.application_base', 'glue.core.state (restart)']
STUB = ['GC schedule', 'uuid and identity-hash streams']
ASSUMPTIONS = ['only commands mutate the collection between do and undo (the statement quantifies over command sequences); '
               'operations outside the stack (edit-subset choice, edit mode, direct append, direct new group) run only while the history is empty',
               'commands whose do() raises are not generated', 'sampling, not proof']
PROBES = ['undo_created_group', 'redo_created_group', 'undo_remove_data_with_groups', 'undo_depth_ge_3', 'history_bound_hit',
          'redo_cleared_by_new_command', 'undo_after_restart_empty', 'andnot_or_xor_mode',
          'edit_choice_changed_between_commands', 'redo_followed_not_compared']

WEIGHTS = {'new_group': 0.5, 'append': 0.5, 'new': 2, 'do_add': 4, 'do_remove': 2, 'do_apply': 6, 'do_roi': 2, 'undo': 6, 'redo': 4,
           'set_edit': 1, 'set_mode': 1, 'restart': 0.3, 'collect': 0.3}


def generate(rng, cfg, guards):
    long_run = rng.chance(0.08)
    n = rng.randrange(60, 76) if long_run else rng.randrange(3, cfg['max_ops'] + 1)
    w = {}
    for k, v in sorted(WEIGHTS.items()):
        if k in ('do_add', 'do_apply', 'undo') or rng.chance(0.8):
            w[k] = v * rng.pick([0.5, 1, 2])
    if long_run:
        w['undo'] = w.get('undo', 1) * 0.2
        w.pop('restart', None)
    pairs = sorted(w.items())
    ops = [W.gen_common(rng, 'new'), rng.pick([['do_add', 0], ['append', 0]])]
    if rng.chance(0.15):
        # the first selections are made while the collection is still empty
        ops = [W.gen_common(rng, 'new'), W.gen_common(rng, 'do_apply'), ['undo'], ['do_add', 0]]
    # (withdrawn: a 'stray' operation gave the first dataset a stand-alone subset before any command. glue no longer supports subsets
    # outside subset groups - a restored collection coerces them into groups with a warning - and histories with a restart raised alarms
    # on the unchanged tree under VERIF_SEED 1-3 that are about that coercion, not about undo. The executor still knows the operation.)
    for _ in range(rng.randrange(0, 3)):
        ops.append(W.gen_common(rng, rng.pick(['new_group', 'set_edit', 'set_mode', 'new', 'append'])))
    while len(ops) < n:
        k = rng.wpick(pairs)
        ops.append(['restart'] if k == 'restart' else W.gen_common(rng, k))
    if not long_run and rng.chance(0.35):
        # back, forth and back again over several commands: redone commands meet objects that earlier redone commands re-created
        depth = rng.randrange(2, 5)
        at = rng.randrange(len(ops) // 2, len(ops) + 1)
        ops[at:at] = [W.gen_common(rng, 'do_apply') for _ in range(rng.randrange(0, 3))] + \
            [['undo']] * depth + [['redo']] * depth + [['undo']] * depth
    if long_run:
        ops += [['undo']] * rng.randrange(45, 56)
    return {'knobs': {'guards': list(guards), 'prop': PROP}, 'ops': ops}


def snapshot(w):
    dc = w.dc
    data = list(dc)
    ids = sorted(i for i, d in enumerate(w.pool) if any(d is x for x in data))
    groups = []
    for g in dc.subset_groups:
        masks = []
        for i in ids:
            d = w.pool[i]
            subs = [s for s in d.subsets if getattr(s, 'group', None) is g]
            if len(subs) != 1:
                masks.append([i, 'members=%d' % len(subs)])
                continue
            st, m = W.mask_of(subs[0])
            masks.append([i, W.arr_digest(m) if st == 'ok' else st])
        groups.append([g.label, sorted(W.style_of(g.style).items()), masks])
    es = w.session.edit_subset_mode.edit_subset
    gl = list(dc.subset_groups)
    edit = []
    for e in (es or []):
        idx = [i for i, g in enumerate(gl) if g is e]
        edit.append(idx[0] if idx else 'not-in-collection')
    # subsets that belong to none of the collection's groups (e.g. created by a group that was undone but still listens)
    strays = []
    for i in ids:
        n = sum(1 for s_ in w.pool[i].subsets if not any(getattr(s_, 'group', None) is g for g in dc.subset_groups))
        if n:
            strays.append([i, n])
    return {'data': ids, 'groups': groups, 'edit': edit, 'strays': strays}


def diff(a, b, with_edit=True):
    out = []
    for k in ('data', 'groups', 'strays') + (('edit',) if with_edit else ()):
        if a[k] != b[k]:
            out.append('%s: expected %r got %r' % (k, a[k], b[k]))
    return '; '.join(out)[:900]


def execute(case, res):
    tmp = tempfile.mkdtemp(prefix='verif-c13-')
    try:
        _execute(case, res, tmp)
    finally:
        shutil.rmtree(tmp, ignore_errors=True)


def _execute(case, res, tmp):
    w = W.World(case['knobs'], res, tmp)
    hist, redo = [], []          # entries: {'before','after','kind','created','edit_ok','redo_ok'}
    outside = [False]
    follow = [False]
    for op in case['ops']:
        k = op[0]
        res.nops += 1
        is_do = k in ('do_add', 'do_remove', 'do_apply', 'do_roi')
        if k == 'stray':
            if not hist and not redo:
                d = w.pick_pool(op[1])
                if d is not None:
                    sub = d.new_subset(label='own selection')
                    sub.subset_state = w.build_state(op[2])
                    res.probe('dataset_with_stand_alone_subset')
            continue
        if k in ('new_group', 'append') and (hist or redo):
            # the statement quantifies over command sequences: a collection changed outside the stack between a
            # command and its undo/redo legitimately changes what they do, so such ops run only on an
            # empty history (start of the run, after a restart)
            continue
        if k in ('set_edit', 'set_mode') and redo:
            # choosing another edit subset / mode (a click, not a command) while commands can be redone changes what redo
            # does; with nothing to redo it is what users do between commands, and undo must still restore exactly
            continue
        if not hist and not redo:
            follow[0] = False
        if k in ('set_edit', 'set_mode') and hist:
            outside[0] = True
            # from here on a re-done command may run under another choice than when it was first done, and whatever is re-done
            # after it starts from another state: until the history is empty again every redo is followed (its snapshots
            # refreshed), not compared; every undo is still compared with the state before the latest execution of its command
            follow[0] = True
            # AddData / RemoveData neither use nor record the edit-subset choice: undoing them after a click leaves the choice
            # where the click put it (a click is not a command, the statement does not say what undo does to it)
            for e in hist:
                if e['kind'] in ('AddData', 'RemoveData'):
                    e['edit_ok'] = False
                # whatever is undone and re-done from here on is re-done under the new choice
                e['redo_ok'] = False
            res.probe('edit_choice_changed_between_commands')
        before = snapshot(w) if is_do else None
        pre_redo = snapshot(w) if (k == 'redo' and redo and (follow[0] or not redo[-1].get('redo_ok', True))) else None
        nlog = w.ncmds
        entry = None
        if k == 'undo' and hist:
            entry = hist[-1]
        if k == 'redo' and redo:
            entry = redo[-1]
        if k == 'do_apply' and op[2] in (2, 3, 4):
            res.probe('andnot_or_xor_mode')
        try:
            if k == 'restart':
                path = w.save(include_data=True)
                w.rebind(w.restore(path))
                hist, redo = [], []
                follow[0] = False
                res.fault('crash_restart')
                out = W.OK
            else:
                out = W.exec_common(w, op)
        except W.OpCrash as e:
            raise Violation('C13/crash/%s:%s' % (k, type(e.exc).__name__), str(e))
        res.log.append([k, out, len(w.dc), len(w.dc.subset_groups)])
        if is_do and out == W.OK and w.ncmds > nlog:
            if redo:
                res.probe('redo_cleared_by_new_command')
            c = w.cmdlog[-1]
            # a command issued after such a click is re-done later under whatever choice is current then: its redo is
            # followed (snapshots refreshed), not compared
            hist.append({'before': before, 'after': snapshot(w), 'kind': c['kind'],
                         'created': bool(c.get('created_group')), 'edit_ok': True, 'redo_ok': not outside[0]})
            outside[0] = False
            if len(hist) > 50:
                del hist[:-50]
                res.probe('history_bound_hit')
            redo = []
        elif k == 'undo' and out == W.OK:
            e = hist.pop()
            redo.append(e)
            got = snapshot(w)
            d = diff(e['before'], got, e['edit_ok'])
            res.nchecks += 1
            res.nontrivial = True
            if e['created']:
                res.probe('undo_created_group')
            if e['kind'] == 'RemoveData' and got['groups']:
                res.probe('undo_remove_data_with_groups')
            if len(redo) >= 3:
                res.probe('undo_depth_ge_3')
            res.fp('undo', e['kind'], e['created'], len(got['data']), len(got['groups']), min(len(hist), 6),
                   min(len(redo), 6), len(got['edit']))
            if d:
                raise Violation('C13/undo-does-not-restore/%s%s' % (e['kind'], '+created-group' if e['created'] else ''), d)
        elif k == 'redo' and out == W.OK:
            e = redo.pop()
            hist.append(e)
            got = snapshot(w)
            if pre_redo is not None:
                e['before'], e['after'] = pre_redo, got
                res.probe('redo_followed_not_compared')
            d = diff(e['after'], got, e['edit_ok'])
            res.nchecks += 1
            res.nontrivial = True
            if e['created']:
                res.probe('redo_created_group')
            res.fp('redo', e['kind'], e['created'], len(got['data']), len(got['groups']), min(len(hist), 6),
                   min(len(redo), 6), len(got['edit']))
            if d:
                raise Violation('C13/redo-does-not-restore/%s%s' % (e['kind'], '+created-group' if e['created'] else ''), d)
        elif k == 'undo' and out == W.EXPECTED and not w.cmdlog:
            res.probe('undo_after_restart_empty')
        can = tuple(w.session.command_stack.can_undo_redo())
        if can != (len(hist) > 0, len(redo) > 0):
            raise Violation('C13/can-undo-redo-mismatch/%s' % k,
                            'can_undo_redo()=%r, model has %d undoable and %d redoable commands' % (can, len(hist), len(redo)))
