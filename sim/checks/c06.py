"""C06 - every dataset in a collection carries exactly one subset per subset group.

Engine E2.  Histories over the collection / group / command vocabulary with delay
windows (K2), rejected calls (K4), crash-restart (K5).  Oracle: structural
invariant on the real objects after every quiescent step.
"""
import gc
import shutil
import tempfile

from sim.core import Violation
from sim import world as W

PROP = 'C06'
TIERS = {
    'quick': {'runs': 9600, 'blocks': 16, 'max_ops': 30},
    'thorough': {'runs': 256000, 'blocks': 64, 'max_ops': 80},
}
RULE = ('Each run is one seeded history over {new dataset, append, remove, re-append, merge, clear, dc[label]=data, '
        'extend/append of a non-dataset (rejected call), new/remove subset group, set group state/label/style, '
        'do/undo/redo of AddData/RemoveData/ApplySubsetState/ApplyROI, open/close hub and link-manager delay windows '
        '(also closed by an exception), save+drop+restore (restart), collect}. Handles are resolved at execution time. '
        'A run is non-trivial when the invariant was evaluated at least once on a state with >=1 dataset in the '
        'collection and >=1 subset group. distinct_nontrivial counts distinct fingerprints (op kind, previous op kind, '
        '#datasets, #groups, #removed datasets, delay depth, undo depth, redo depth) seen at oracle evaluations.')
EXPLANATION = ('Invariant checked on the real objects at every quiescent step: each dataset in the collection has exactly '
               'one GroupedSubset per group of dc.subset_groups and nothing else; each group lists exactly those subsets; '
               'members share state, label and style with the group; datasets no longer in the collection hold no subset '
               'of a live group and no live group lists a subset of them; removed groups are unsubscribed from the hub.')
REAL = ['glue.core.data_collection', 'glue.core.subset_group', 'glue.core.data', 'glue.core.subset', 'glue.core.command',
        'glue.core.edit_subset_mode', 'glue.core.hub', 'glue.core.state (restart)', 'glue.core.application_base', 'real files']
STUB = ['GC schedule', 'uuid and identity-hash streams']
ASSUMPTIONS = ['oracle evaluated only when no delay window is open', 'sampling of histories up to the stated length, not proof']
PROBES = ['reappend_with_groups', 'undo_remove_data', 'restart_with_groups', 'remove_in_delay_window', 'rejected_call_with_groups',
          'merge_with_groups', 'group_removed_then_data_added', 'extend_with_repeated_dataset']

WEIGHTS = {'new': 4, 'append': 6, 'remove': 4, 'clear': 0.5, 'merge': 1, 'setitem': 1, 'extend_junk': 0.7, 'append_junk': 0.3, 'extend_list': 1.5,
           'new_group': 4, 'remove_group': 2, 'set_state': 2, 'set_label': 1, 'set_style': 1, 'set_edit': 1, 'set_mode': 0.5,
           'do_add': 2, 'do_remove': 2, 'do_apply': 3, 'do_roi': 1, 'undo': 3, 'redo': 2,
           'delay_open': 1.5, 'delay_close': 2, 'collect': 0.5, 'restart': 0.7}


def generate(rng, cfg, guards):
    n = rng.randrange(3, cfg['max_ops'] + 1)
    # swarm: disable a random part of the vocabulary, rescale the rest
    w = {}
    for k, v in sorted(WEIGHTS.items()):
        if k in ('new', 'append', 'new_group') or rng.chance(0.75):
            w[k] = v * rng.pick([0.5, 1, 2])
    pairs = sorted(w.items())
    ops = [W.gen_common(rng, 'new'), ['append', 0]]
    while len(ops) < n:
        k = rng.wpick(pairs)
        if k == 'restart':
            ops.append(['restart', rng.chance(0.8)])
        else:
            ops.append(W.gen_common(rng, k))
    return {'knobs': {'guards': list(guards), 'prop': PROP, 'agc': rng.chance(0.1)}, 'ops': ops}


def check_invariant(w, where):
    from glue.core.subset_group import GroupedSubset
    from glue.core.message import DataCollectionAddMessage
    dc = w.dc
    groups = list(dc.subset_groups)
    data = list(dc)
    for i, g in enumerate(groups):
        if any(g is h for h in groups[:i]):
            raise Violation('C06/group-listed-twice/%s' % where, 'group %r' % g.label)
        members = list(g.subsets)
        for d in data:
            mine = [s for s in members if s.data is d]
            if len(mine) != 1:
                raise Violation('C06/group-members-per-dataset!=1/%s' % where,
                                'group %r lists %d subsets for dataset %r (collection has %d datasets, group lists %d)'
                                % (g.label, len(mine), d.label, len(data), len(members)))
            if not any(mine[0] is s for s in d.subsets):
                raise Violation('C06/member-not-on-dataset/%s' % where,
                                'group %r member for %r is not in data.subsets' % (g.label, d.label))
        for s in members:
            if not any(s.data is d for d in data):
                raise Violation('C06/group-lists-removed-dataset/%s' % where,
                                'group %r still lists a subset of %r which is not in the collection'
                                % (g.label, getattr(s.data, 'label', None)))
            if s.subset_state is not g.subset_state or s.label != g.label or s.style != g.style:
                raise Violation('C06/member-differs-from-group/%s' % where, 'group %r' % g.label)
    for d in data:
        subs = list(d.subsets)
        for s in subs:
            if not isinstance(s, GroupedSubset):
                raise Violation('C06/ungrouped-subset/%s' % where, 'dataset %r has a non-grouped subset' % d.label)
            if not any(s.group is g for g in groups):
                raise Violation('C06/subset-of-removed-group/%s' % where,
                                'dataset %r carries a subset of a group that is not in dc.subset_groups' % d.label)
        if len(subs) != len(groups):
            raise Violation('C06/subsets-per-dataset!=groups/%s' % where,
                            'dataset %r has %d subsets, collection has %d groups' % (d.label, len(subs), len(groups)))
        for j, s in enumerate(subs):
            if any(s.group is t.group for t in subs[:j]):
                raise Violation('C06/two-subsets-one-group/%s' % where,
                                'dataset %r has two subsets of group %r' % (d.label, s.group.label))
    for d in w.pool:
        if any(d is x for x in data):
            continue
        for s in d.subsets:
            if isinstance(s, GroupedSubset) and any(s.group is g for g in groups):
                raise Violation('C06/removed-dataset-keeps-membership/%s' % where,
                                'dataset %r was removed but still carries a subset of live group %r'
                                % (d.label, s.group.label))
    for g in w.dead_groups:
        if w.hub.is_subscribed(g, DataCollectionAddMessage):
            raise Violation('C06/removed-group-still-subscribed/%s' % where, 'group %r' % g.label)


def trigger_of(w, op):
    k = op[0]
    if k in ('undo', 'redo'):
        log = w.redolog if k == 'undo' else w.cmdlog
        if log:
            c = log[-1]
            return '%s:%s%s' % (k, c['kind'], '+created-group' if c.get('created_group') else '')
    return k


def execute(case, res):
    tmp = tempfile.mkdtemp(prefix='verif-c06-')
    try:
        _execute(case, res, tmp)
    finally:
        shutil.rmtree(tmp, ignore_errors=True)


def _execute(case, res, tmp):
    w = W.World(case['knobs'], res, tmp)
    w.dead_groups = []
    prev = 'start'
    agc = case['knobs'].get('agc')
    for op in case['ops']:
        k = op[0]
        res.nops += 1
        ngroups = len(w.dc.subset_groups)
        ndata = len(w.dc)
        if agc:
            gc.collect()
        # reach probes (before)
        if k == 'append' and ngroups and w.pool:
            d = w.pick_pool(op[1])
            if d is not None and d not in list(w.dc) and d.subsets:
                res.probe('reappend_with_groups')
        if k == 'remove' and w.cms and ndata:
            res.probe('remove_in_delay_window')
        if k in ('extend_junk', 'append_junk') and ngroups:
            res.probe('rejected_call_with_groups')
        if k == 'merge' and ngroups and ndata > 1:
            res.probe('merge_with_groups')
        if k == 'undo' and w.cmdlog and w.cmdlog[-1]['kind'] == 'RemoveData' and ngroups:
            res.probe('undo_remove_data')
        if k == 'remove_group':
            g = w.pick_group(op[1])
            if g is not None:
                w.dead_groups.append(g)
                del w.dead_groups[:-4]
        try:
            if k == 'restart':
                if w.cms:
                    continue
                if ngroups and ndata:
                    res.probe('restart_with_groups')
                path = w.save(include_data=True)
                app = w.restore(path)
                w.dead_groups = []
                w.rebind(app)
                res.fault('crash_restart')
                out = W.OK
            else:
                out = W.exec_common(w, op)
        except W.OpCrash as e:
            raise Violation('C06/crash/%s:%s' % (k, type(e.exc).__name__), str(e))
        if k == 'append' and w.dead_groups and ndata < len(w.dc):
            res.probe('group_removed_then_data_added')
        res.log.append([k, out, len(w.dc), len(w.dc.subset_groups), len(w.cms)])
        if w.quiescent():
            trig = trigger_of(w, op)
            check_invariant(w, trig)
            res.nchecks += 1
            if len(w.dc) and len(w.dc.subset_groups):
                res.nontrivial = True
                res.fp(k, prev, len(w.dc), len(w.dc.subset_groups), len(w.pool) - len(w.dc), len(w.cms),
                       len(w.cmdlog), len(w.redolog))
        prev = k
    w.close_all_windows()
    check_invariant(w, 'end')
    res.log.append(['end', [d.label for d in w.dc], [g.label for g in w.dc.subset_groups]])
