"""C07 - hub delivery semantics.  Engine E1 (hub simulator).

System under simulation: the real glue.core.hub.Hub + HubCallbackContainer.
The scheduler owns: the order of broadcasts / delay / ignore / subscribe /
unsubscribe operations, what every handler does when it is called
(re-entrancy scripts), when listeners and handler owners die, when the cycle
collector runs.  The oracle is a spec state machine that consumes the totally
ordered trace recorded during the run (trace validation).
"""
import gc
import types
import weakref

from sim.core import Violation

PROP = 'C07'
NEED_GLUE = True

TIERS = {
    'quick': {'runs': 48000, 'blocks': 16, 'max_ops': 28},
    'thorough': {'runs': 1600000, 'blocks': 64, 'max_ops': 40},
}

RULE = ('Each run is one seeded hub schedule: a flat list of top-level operations '
        '(broadcast, enter delay / enter ignore / exit block [normally or by exception], subscribe with a '
        'handler kind, filter kind, priority and a re-entrancy script, unsubscribe, unsubscribe_all, kill '
        'listener, kill handler owner, collect) over message classes M0>M1>M2 and N<M0, up to 4 listeners. '
        'A run is non-trivial when the oracle validated at least one handler invocation; two runs are '
        'distinct when their canonical traces (event kinds, classes, listener indices - not object ids) '
        'differ; distinct_nontrivial counts distinct traces of non-trivial runs.')
EXPLANATION = ('Oracle = spec machine over the recorded trace: exactly-once to the listeners whose most specific '
               'matching subscription accepts the message at dispatch time, nobody else, priorities non-increasing, '
               'nothing delivered while a delay block is open, queued messages flushed once and in order at the '
               'outermost exit (also on exception exit), ignored types dropped, nested broadcasts finished before '
               'the handler returns.  Order among equal priorities is not constrained; a listener whose '
               'subscription changes while a message is being dispatched may or may not get it.')
REAL = ['glue.core.hub.Hub', 'glue.core.hub_callback_container.HubCallbackContainer', 'glue.core.message.Message',
        'CPython weak references and cycle collector']
STUB = ['listeners and handler owners (scripted by the scheduler)', 'GC schedule (gc disabled, collect is an operation)']
ASSUMPTIONS = ['handlers do not raise (exceptions thrown by third-party handlers are outside the property)',
               'delay/ignore blocks nest properly (they are context managers)',
               'sampling, not proof: schedules up to the stated length and re-entrancy depth 3']
PROBES = ['nested_delay_flush', 'death_while_queued', 'unsub_during_dispatch', 'exception_exit_nonempty_queue',
          'handler_delay_during_flush', 'ignored_dropped', 'filter_rejected', 'most_specific_shadowing',
          'owner_death_removes_sub', 'reentrant_broadcast', 'listener_death', 'stateful_filter_rejected',
          'filter_state_changed_during_dispatch', 'dropped_listeners_checked']

CLASSES = ['M0', 'M1', 'M2', 'N']
PARENTS = {'M0': ['M0'], 'M1': ['M1', 'M0'], 'M2': ['M2', 'M1', 'M0'], 'N': ['N', 'M0']}
DEPTH = {'M0': 0, 'M1': 1, 'M2': 2, 'N': 1}
MAX_HANDLER_DEPTH = 3
MAX_EVENTS = 4000

_MSG = {}


def _classes():
    if not _MSG:
        from glue.core.message import Message

        class M0(Message):
            pass

        class M1(M0):
            pass

        class M2(M1):
            pass

        class N(M0):
            pass
        _MSG.update({'M0': M0, 'M1': M1, 'M2': M2, 'N': N})
    return _MSG


# ----------------------------------------------------------------------------- generation

def gen_spec(rng, nl, na, depth=0):
    hk = rng.wpick([('method', 5), ('func', 2), ('notify', 2), ('aux', 1 if na else 0)])
    fk = rng.wpick([('all', 5), ('tag', 2), ('ftag', 1), ('auxtag', 1 if na else 0), ('flag', 1.5)])
    spec = {'h': hk, 'f': fk, 'p': rng.pick([0, 10, 10, 20]), 'acc': rng.pick([0, 1]),
            'script': gen_script(rng, nl, na, depth)}
    if hk == 'aux':
        spec['ha'] = rng.randrange(na)
    if fk == 'auxtag':
        spec['fa'] = rng.randrange(na)
    if fk == 'flag':
        spec['fl'] = rng.randrange(2)
    return spec


def gen_action(rng, nl, na, depth):
    k = rng.wpick([('b', 6), ('d', 3 if depth < 2 else 0), ('i', 1 if depth < 2 else 0), ('s', 2), ('u', 2),
                   ('ua', 1), ('k', 1), ('ka', 1 if na else 0), ('c', 1), ('t', 2)])
    if k == 't':
        return ['t', rng.randrange(2)]
    if k == 'b':
        return ['b', rng.pick(CLASSES), rng.randrange(2)]
    if k == 'd':
        return ['d', [gen_action(rng, nl, na, depth + 1) for _ in range(rng.randrange(0, 3))], rng.chance(0.25)]
    if k == 'i':
        return ['i', rng.pick(CLASSES), [gen_action(rng, nl, na, depth + 1) for _ in range(rng.randrange(0, 3))]]
    if k == 's':
        return ['s', rng.randrange(nl), rng.pick(CLASSES), gen_spec(rng, nl, na, depth + 2)]
    if k == 'u':
        return ['u', rng.randrange(nl), rng.pick(CLASSES)]
    if k == 'ua':
        return ['ua', rng.randrange(nl)]
    if k == 'k':
        return ['k', rng.randrange(nl)]
    if k == 'ka':
        return ['ka', rng.randrange(na)]
    return ['c']


def gen_script(rng, nl, na, depth):
    if depth >= 2 or rng.chance(0.55):
        return []
    return [gen_action(rng, nl, na, depth + 1) for _ in range(rng.randrange(1, 3))]


def generate(rng, cfg, guards):
    nl = rng.randrange(1, 5)
    na = rng.randrange(0, 3)
    nops = rng.randrange(3, cfg['max_ops'] + 1)
    # swarm: per-run weights
    w = {'b': 6, 'enter_delay': rng.pick([0, 1, 3]), 'enter_ignore': rng.pick([0, 0, 1, 2]),
         'exit': rng.pick([1, 2, 3]), 's': rng.pick([2, 4]), 'u': rng.pick([0, 1, 2]), 'ua': rng.pick([0, 1]),
         'k': rng.pick([0, 0, 1]), 'ka': rng.pick([0, 0, 1]) if na else 0, 'c': rng.pick([0, 1]), 't': rng.pick([0, 1, 1])}
    ops = []
    nsub0 = rng.randrange(1, 2 * nl + 1)
    for _ in range(nsub0):
        ops.append(['s', rng.randrange(nl), rng.pick(CLASSES), gen_spec(rng, nl, na)])
    pairs = sorted(w.items())
    while len(ops) < nops:
        k = rng.wpick(pairs)
        if k == 'b':
            ops.append(['b', rng.pick(CLASSES), rng.randrange(2)])
        elif k == 'enter_delay':
            ops.append(['enter_delay'])
        elif k == 'enter_ignore':
            ops.append(['enter_ignore', rng.pick(CLASSES)])
        elif k == 'exit':
            ops.append(['exit', rng.chance(0.2)])
        elif k == 's':
            ops.append(['s', rng.randrange(nl), rng.pick(CLASSES), gen_spec(rng, nl, na)])
        elif k == 'u':
            ops.append(['u', rng.randrange(nl), rng.pick(CLASSES)])
        elif k == 'ua':
            ops.append(['ua', rng.randrange(nl)])
        elif k == 'k':
            ops.append(['k', rng.randrange(nl)])
        elif k == 'ka':
            ops.append(['ka', rng.randrange(na)])
        elif k == 't':
            ops.append(['t', rng.randrange(2)])
        else:
            ops.append(['c'])
    return {'knobs': {'nl': nl, 'na': na, 'cyc': [rng.chance(0.5) for _ in range(nl)],
                      'agc': rng.chance(0.1)}, 'ops': ops}


def simplify(case):
    """Simpler variants: empty or shorten handler scripts, turn off knobs."""
    ops = case['ops']
    for i, op in enumerate(ops):
        if op[0] == 's' and op[3].get('script'):
            sc = op[3]['script']
            for j in range(len(sc)):
                new = [list(o) for o in ops]
                spec = dict(op[3])
                spec['script'] = sc[:j] + sc[j + 1:]
                new[i] = ['s', op[1], op[2], spec]
                yield dict(case, ops=new)
            for j, a in enumerate(sc):
                if a[0] in ('d', 'i'):
                    body = a[1] if a[0] == 'd' else a[2]
                    for t in range(len(body)):
                        nb = body[:t] + body[t + 1:]
                        na_ = ['d', nb, a[2]] if a[0] == 'd' else ['i', a[1], nb]
                        new = [list(o) for o in ops]
                        spec = dict(op[3])
                        spec['script'] = sc[:j] + [na_] + sc[j + 1:]
                        new[i] = ['s', op[1], op[2], spec]
                        yield dict(case, ops=new)
        if op[0] == 's' and (op[3]['h'] != 'method' or op[3]['f'] != 'all'):
            new = [list(o) for o in ops]
            spec = dict(op[3], h='method', f='all')
            new[i] = ['s', op[1], op[2], spec]
            yield dict(case, ops=new)
    k = case['knobs']
    if k.get('agc'):
        yield dict(case, knobs=dict(k, agc=False))
    if any(k['cyc']):
        yield dict(case, knobs=dict(k, cyc=[False] * len(k['cyc'])))


# ----------------------------------------------------------------------------- execution

class _Sender(object):
    pass


class World(object):
    def __init__(self, case, res):
        from glue.core.hub import Hub
        self.hub = Hub()
        self.res = res
        self.knobs = case['knobs']
        self.trace = []
        self.listeners = {}     # handle -> strong ref (listener.uid is unique per run)
        self.aux = {}
        self.nuid = 0
        self.mid = 0
        self.hdepth = 0
        self.cms = []           # top-level open context managers
        self.agc = False
        self.flags = [True, True]   # mutable state read by 'flag' filters
        self.sender = _Sender()
        self.scripts = {}       # (uid, cls) -> script

    def ev(self, *e):
        self.trace.append(e)

    # -- parties
    def listener(self, handle):
        l = self.listeners.get(handle)
        if l is None:
            self.nuid += 1
            l = make_listener(self, self.nuid)
            if self.knobs['cyc'][handle % len(self.knobs['cyc'])]:
                l.cycle = l
            self.listeners[handle] = l
            weakref.finalize(l, self._died, 'L', l.uid)
        return l

    def auxobj(self, handle):
        a = self.aux.get(handle)
        if a is None:
            self.nuid += 1
            a = Aux(self, self.nuid)
            self.aux[handle] = a
            weakref.finalize(a, self._died, 'A', a.uid)
        return a

    def _died(self, kind, uid):
        self.ev('death', kind, uid)

    # -- deliveries
    def delivered(self, uid, subcls, msg):
        self.ev('enter', uid, subcls, msg.mid)
        if self.agc:
            # after the enter event: the hub has already chosen the recipients of this message, so a death
            # caused by this collection belongs inside the dispatch window in the recorded history
            gc.collect()
        self.hdepth += 1
        try:
            if self.hdepth <= MAX_HANDLER_DEPTH and len(self.trace) < MAX_EVENTS and subcls is not None:
                for a in self.scripts.get((uid, subcls), ()):
                    self.act(a)
        finally:
            self.hdepth -= 1
            self.ev('exit', uid, subcls, msg.mid)

    # -- actions (top level and inside handlers)
    def act(self, a):
        hub = self.hub
        k = a[0]
        if self.agc:
            # aggressive-GC mode: the cycle collector runs before every action, also inside handlers
            # (a threshold-driven collector is not replayable: full collections depend on heap history)
            gc.collect()
        if k == 'b':
            M = _classes()[a[1]]
            self.mid += 1
            m = M(self.sender, tag=a[2])
            m.mid = self.mid
            self.ev('bcast', m.mid, a[1], a[2], self.hdepth)
            hub.broadcast(m)
            self.ev('bcast-ret', m.mid)
        elif k == 'd':
            cm = hub.delay_callbacks()
            cm.__enter__()
            self.ev('delay-enter')
            try:
                for x in a[1]:
                    self.act(x)
            finally:
                self._exit_cm('delay', cm, a[2])
        elif k == 'i':
            M = _classes()[a[1]]
            cm = hub.ignore_callbacks(M)
            cm.__enter__()
            self.ev('ignore-enter', a[1])
            try:
                for x in a[2]:
                    self.act(x)
            finally:
                self._exit_cm(('ignore', a[1]), cm, False)
        elif k == 's':
            self.subscribe(a[1], a[2], a[3])
        elif k == 'u':
            l = self.listeners.get(a[1])
            if l is not None:
                hub.unsubscribe(l, _classes()[a[2]])
                self.ev('unsub', l.uid, a[2])
        elif k == 'ua':
            l = self.listeners.get(a[1])
            if l is not None:
                hub.unsubscribe_all(l)
                self.ev('unsub-all', l.uid)
        elif k == 'k':
            if a[1] in self.listeners:
                self.ev('kill', 'L', self.listeners[a[1]].uid)
                del self.listeners[a[1]]
        elif k == 'ka':
            if a[1] in self.aux:
                self.ev('kill', 'A', self.aux[a[1]].uid)
                del self.aux[a[1]]
        elif k == 'c':
            gc.collect()
            self.ev('collect')
        elif k == 't':
            self.flags[a[1]] = not self.flags[a[1]]
            self.ev('flag', a[1], self.flags[a[1]])
        elif k == 'enter_delay':
            cm = hub.delay_callbacks()
            cm.__enter__()
            self.ev('delay-enter')
            self.cms.append(('delay', cm))
        elif k == 'enter_ignore':
            cm = hub.ignore_callbacks(_classes()[a[1]])
            cm.__enter__()
            self.ev('ignore-enter', a[1])
            self.cms.append((('ignore', a[1]), cm))
        elif k == 'exit':
            if self.cms:
                kind, cm = self.cms.pop()
                self._exit_cm(kind, cm, a[1])
        else:
            raise ValueError(a)

    def _exit_cm(self, kind, cm, raising):
        if kind == 'delay':
            self.ev('delay-exit-begin', bool(raising))
        if raising:
            exc = RuntimeError('scheduler-raised inside block')
            try:
                cm.__exit__(RuntimeError, exc, None)
            except RuntimeError as e:
                if e is not exc:
                    raise
            self.res.fault('exception_exit')
        else:
            cm.__exit__(None, None, None)
        if kind == 'delay':
            self.ev('delay-exit-end')
        else:
            self.ev('ignore-exit', kind[1])

    def subscribe(self, handle, cls, spec):
        l = self.listener(handle)
        M = _classes()[cls]
        hk, fk = spec['h'], spec['f']
        acc = spec['acc']
        kwargs = {'priority': spec['p']}
        howner = fowner = None
        if hk == 'method':
            kwargs['handler'] = getattr(l, 'on_' + cls)
        elif hk == 'func':
            kwargs['handler'] = make_func(self, l.uid, cls)
        elif hk == 'aux':
            a = self.auxobj(spec['ha'])
            howner = a.uid
            kwargs['handler'] = a.handler_for(l.uid, cls)
        if fk == 'tag':
            kwargs['filter'] = l.accept1 if acc else l.accept0
        elif fk == 'ftag':
            kwargs['filter'] = _f1 if acc else _f0
        elif fk == 'auxtag':
            a = self.auxobj(spec['fa'])
            fowner = a.uid
            kwargs['filter'] = a.accept1 if acc else a.accept0
        elif fk == 'flag':
            kwargs['filter'] = l.flag1 if spec['fl'] else l.flag0
        self.scripts[(l.uid, cls)] = spec.get('script', [])
        self.hub.subscribe(l, M, **kwargs)
        self.ev('sub', l.uid, cls, {'p': spec['p'], 'acc': None if fk in ('all', 'flag') else acc, 'flag': spec.get('fl') if fk == 'flag' else None,
                                         'ho': howner, 'fo': fowner, 'known': hk != 'notify'})


def _f0(msg):
    return msg.tag == 0


def _f1(msg):
    return msg.tag == 1


def make_func(world, uid, cls):
    def handler(msg):
        world.delivered(uid, cls, msg)
    return handler


class Aux(object):
    """An object other than the subscriber that owns handlers / filters."""

    def __init__(self, world, uid):
        self.world = world
        self.uid = uid
        self.cycle = self
        self.funcs = []

    def handler_for(self, uid, cls):
        def h(self_, msg):
            self_.world.delivered(uid, cls, msg)
        self.funcs.append(h)    # the hub keeps only a weak reference to the function
        return types.MethodType(h, self)

    def accept0(self, msg):
        return msg.tag == 0

    def accept1(self, msg):
        return msg.tag == 1


_LISTENER_CLS = []


def make_listener(world, uid):
    if not _LISTENER_CLS:
        from glue.core.hub import HubListener

        class SimListener(HubListener):
            def __init__(self, world, uid):
                self.world = world
                self.uid = uid

            def notify(self, msg):
                self.world.delivered(self.uid, None, msg)

            def on_M0(self, msg):
                self.world.delivered(self.uid, 'M0', msg)

            def on_M1(self, msg):
                self.world.delivered(self.uid, 'M1', msg)

            def on_M2(self, msg):
                self.world.delivered(self.uid, 'M2', msg)

            def on_N(self, msg):
                self.world.delivered(self.uid, 'N', msg)

            def accept0(self, msg):
                return msg.tag == 0

            def accept1(self, msg):
                return msg.tag == 1

            def flag0(self, msg):
                return self.world.flags[0]

            def flag1(self, msg):
                return self.world.flags[1]

        _LISTENER_CLS.append(SimListener)
    return _LISTENER_CLS[0](world, uid)


def execute(case, res):
    _classes()
    w = World(case, res)
    w.agc = bool(case['knobs'].get('agc'))
    if w.agc:
        res.fault('aggressive_gc')
    for op in case['ops']:
        if len(w.trace) >= MAX_EVENTS:
            break
        w.act(op)
        res.nops += 1
    while w.cms:
        kind, cm = w.cms.pop()
        w._exit_cm(kind, cm, False)
    trace = w.trace
    # drop strong refs, then run the oracle on the recorded history
    w.listeners.clear()
    w.aux.clear()
    res.log = [list(e) for e in trace]
    check_trace(trace, res)
    w.scripts.clear()
    gc.collect()


# ----------------------------------------------------------------------------- oracle

class _Window(object):
    __slots__ = ('mid', 'expected', 'changed', 'delivered', 'last_prio', 'relaxed_all')

    def __init__(self, mid, expected):
        self.mid = mid
        self.expected = expected      # lid -> (prio, subcls, known)
        self.changed = set()
        self.delivered = []
        self.last_prio = None
        self.relaxed_all = False


def check_trace(trace, res):
    subs = {}       # lid -> {cls: spec}   (insertion ordered)
    alive = {}      # lid -> gen
    depth = 0
    ignore = {}
    queue = []
    msgs = {}       # mid -> dict
    stack = []      # frames: ['dispatch', window] | ['handler', lid] | ['flush', ctx]
    ndeliv = 0
    flags = [True, True]
    dropped = {}
    nkill = [0]

    def recipients(cls, tag):
        out = {}
        for lid, table in subs.items():
            cands = [c for c in table if c in PARENTS[cls]]
            if not cands:
                continue
            best = max(cands, key=lambda c: DEPTH[c])
            spec = table[best]
            if len(cands) > 1:
                res.probe('most_specific_shadowing')
            if spec['acc'] is not None and spec['acc'] != tag:
                res.probe('filter_rejected')
                continue
            if spec.get('flag') is not None and not flags[spec['flag']]:
                res.probe('stateful_filter_rejected')
                continue
            out[lid] = (spec['p'], best, spec['known'])
        return out

    def touch(lid):
        for fr in stack:
            if fr[0] == 'dispatch':
                fr[1].changed.add(lid)
            elif fr[0] == 'flush' and fr[1]['win'] is not None:
                fr[1]['win'].changed.add(lid)

    def close_window(win, where):
        got = set(win.delivered)
        need = set(win.expected) - win.changed
        if win.relaxed_all:
            need = set()
        missing = need - got
        if missing:
            m = msgs[win.mid]
            raise Violation('C07/lost-delivery/%s' % where,
                            'message %d (%s) never reached listener(s) %s' % (win.mid, m['cls'], sorted(missing)))

    def resolve_pending_before(ctx, pos, where):
        # every pending message before position pos that got no delivery must have had nobody to go to
        while ctx['cursor'] < pos:
            mid = ctx['pending'][ctx['cursor']]
            m = msgs[mid]
            if not m['resolved']:
                exp = recipients(m['cls'], m['tag'])
                if ignore.get(m['cls'], 0) > 0:
                    res.probe('ignored_at_flush')
                    exp = {}
                if exp:
                    raise Violation('C07/lost-or-reordered-flush/%s' % where,
                                    'queued message %d (%s) was skipped although %s should get it'
                                    % (mid, m['cls'], sorted(exp)))
                m['resolved'] = True
            ctx['cursor'] += 1

    for ev in trace:
        k = ev[0]
        if k == 'sub':
            _, lid, cls, spec = ev
            alive[lid] = True
            subs.setdefault(lid, {})[cls] = spec
            touch(lid)
            if stack:
                res.probe('unsub_during_dispatch')
        elif k == 'unsub':
            _, lid, cls = ev
            if lid in subs:
                subs[lid].pop(cls, None)
                touch(lid)
                if stack:
                    res.probe('unsub_during_dispatch')
        elif k == 'unsub-all':
            _, lid = ev
            if True:
                subs.pop(lid, None)
                touch(lid)
                if stack:
                    res.probe('unsub_during_dispatch')
        elif k == 'death':
            _, kind, i = ev
            if kind == 'L':
                if alive.get(i):
                    res.probe('listener_death')
                    if queue and i in subs:
                        res.probe('death_while_queued')
                    subs.pop(i, None)
                    alive.pop(i, None)
                    dropped.pop(i, None)
                    touch(i)
            else:
                for lid in list(subs):
                    for cls in list(subs[lid]):
                        sp = subs[lid][cls]
                        if sp['ho'] == i or sp['fo'] == i:
                            del subs[lid][cls]
                            res.probe('owner_death_removes_sub')
                            touch(lid)
        elif k == 'delay-enter':
            depth += 1
        elif k == 'ignore-enter':
            ignore[ev[1]] = ignore.get(ev[1], 0) + 1
        elif k == 'ignore-exit':
            ignore[ev[1]] -= 1
        elif k == 'bcast':
            _, mid, cls, tag, level = ev
            m = {'cls': cls, 'tag': tag, 'level': level, 'resolved': False, 'got': set()}
            msgs[mid] = m
            if level > 0:
                res.probe('reentrant_broadcast')
            if ignore.get(cls, 0) > 0:
                m['status'] = 'dropped'
                res.probe('ignored_dropped')
            elif depth > 0:
                m['status'] = 'queued'
                queue.append(mid)
            else:
                m['status'] = 'immediate'
                stack.append(['dispatch', _Window(mid, recipients(cls, tag))])
        elif k == 'bcast-ret':
            mid = ev[1]
            m = msgs[mid]
            if m['status'] == 'immediate':
                fr = stack.pop()
                if fr[0] != 'dispatch' or fr[1].mid != mid:
                    raise Violation('C07/trace-structure', 'unbalanced dispatch frame at %r' % (ev,))
                close_window(fr[1], 'immediate')
                m['resolved'] = True
        elif k == 'delay-exit-begin':
            depth -= 1
            if depth == 0:
                if ev[1] and queue:
                    res.probe('exception_exit_nonempty_queue')
                if any(fr[0] == 'flush' for fr in stack) or any(fr[0] == 'handler' for fr in stack):
                    if any(fr[0] == 'flush' for fr in stack):
                        res.probe('handler_delay_during_flush')
                stack.append(['flush', {'pending': queue, 'cursor': 0, 'win': None}])
                queue = []
            else:
                if queue:
                    res.probe('nested_delay_flush')
                stack.append(['inner-exit'])
        elif k == 'delay-exit-end':
            fr = stack.pop()
            if fr[0] == 'inner-exit':
                continue
            if fr[0] != 'flush':
                raise Violation('C07/trace-structure', 'unbalanced flush frame')
            ctx = fr[1]
            if ctx['win'] is not None:
                close_window(ctx['win'], 'flush')
                msgs[ctx['win'].mid]['resolved'] = True
                ctx['win'] = None
            resolve_pending_before(ctx, len(ctx['pending']), 'flush-end')
        elif k == 'enter':
            _, lid, subcls, mid = ev
            ndeliv += 1
            m = msgs[mid]
            where = m['status']
            if depth > 0:
                raise Violation('C07/delivered-while-delayed',
                                'message %d (%s) reached listener %d while a delay block is open (depth %d)'
                                % (mid, m['cls'], lid, depth))
            if m['status'] == 'dropped':
                raise Violation('C07/ignored-type-delivered',
                                'message %d of ignored type %s reached listener %d' % (mid, m['cls'], lid))
            if lid in m['got']:
                raise Violation('C07/duplicate-delivery/%s' % where,
                                'message %d (%s) reached listener %d twice' % (mid, m['cls'], lid))
            win = None
            if m['status'] == 'immediate':
                if not stack or stack[-1][0] != 'dispatch' or stack[-1][1].mid != mid:
                    raise Violation('C07/delivery-outside-dispatch/immediate',
                                    'message %d delivered to %d outside its broadcast call' % (mid, lid))
                win = stack[-1][1]
            else:
                # queued: find the innermost flush frame that owns it
                ctx = None
                for fr in reversed(stack):
                    if fr[0] == 'flush' and mid in fr[1]['pending']:
                        ctx = fr[1]
                        break
                if ctx is None or stack[-1][0] != 'flush':
                    raise Violation('C07/delivery-outside-dispatch/queued',
                                    'queued message %d delivered to %d outside the flush of its delay block'
                                    % (mid, lid))
                if ctx['win'] is not None and ctx['win'].mid == mid:
                    win = ctx['win']
                else:
                    if ctx['win'] is not None:
                        close_window(ctx['win'], 'flush')
                        msgs[ctx['win'].mid]['resolved'] = True
                        ctx['win'] = None
                    pos = ctx['pending'].index(mid)
                    if m['resolved'] or pos < ctx['cursor']:
                        raise Violation('C07/duplicate-delivery/queued',
                                        'queued message %d delivered again after its flush finished' % mid)
                    resolve_pending_before(ctx, pos, 'flush')
                    win = _Window(mid, recipients(m['cls'], m['tag']))
                    if ignore.get(m['cls'], 0) > 0:
                        win.relaxed_all = True
                        res.probe('ignored_at_flush')
                    ctx['win'] = win
                    ctx['cursor'] = pos + 1
            if lid not in win.expected:
                raise Violation('C07/wrong-recipient/%s' % where,
                                'message %d (%s tag %s) reached listener %d which has no accepting subscription; '
                                'expected %s' % (mid, m['cls'], m['tag'], lid, sorted(win.expected)))
            prio, best, known = win.expected[lid]
            if lid not in win.changed:
                if subcls is not None and known and subcls != best:
                    raise Violation('C07/not-most-specific/%s' % where,
                                    'listener %d got message %d (%s) through its %s subscription, most specific is %s'
                                    % (lid, mid, m['cls'], subcls, best))
                if win.last_prio is not None and prio > win.last_prio:
                    raise Violation('C07/priority-order/%s' % where,
                                    'message %d: listener %d (priority %d) called after priority %d'
                                    % (mid, lid, prio, win.last_prio))
                win.last_prio = prio
            win.delivered.append(lid)
            m['got'].add(lid)
            stack.append(['handler', lid])
        elif k == 'exit':
            fr = stack.pop()
            if fr[0] != 'handler' or fr[1] != ev[1]:
                raise Violation('C07/broadcast-outlives-handler',
                                'handler of listener %d returned while a nested dispatch was still open' % ev[1])
        elif k == 'flag':
            flags[ev[1]] = ev[2]
            if any(fr[0] == 'dispatch' or (fr[0] == 'flush' and fr[1]['win'] is not None) for fr in stack):
                res.probe('filter_state_changed_during_dispatch')
        elif k == 'kill':
            if ev[1] == 'L':
                dropped[ev[2]] = True
                nkill[0] += 1
        elif k == 'collect':
            # the hub refers to its listeners weakly: a listener whose owner has dropped it is gone after a collection
            # (checked outside dispatches, where no frame can still hold it) and can receive nothing any more
            if not stack:
                still = sorted(lid for lid in dropped if alive.get(lid))
                if still:
                    raise Violation('C07/dropped-listener-kept-alive', 'listener(s) %s were dropped by their owner and a collection ran, but they are still subscribed' % still)
                if nkill[0]:
                    res.probe('dropped_listeners_checked')
        else:
            raise ValueError(ev)
    if queue:
        raise Violation('C07/lost-delivery/never-flushed', 'messages %s still queued at the end' % queue)
    for mid, m in msgs.items():
        if m['status'] == 'queued' and not m['resolved']:
            raise Violation('C07/lost-delivery/never-flushed', 'queued message %d was never flushed' % mid)
    res.nchecks += ndeliv
    res.nontrivial = ndeliv > 0
    if res.nontrivial:
        res.fp('trace', [canon(e) for e in trace])


def canon(e):
    k = e[0]
    if k == 'sub':
        return [k, e[1], e[2], e[3]['p'], e[3]['acc']]
    if k in ('enter', 'exit'):
        return [k, e[1], e[2]]
    if k == 'bcast':
        return [k, e[2], e[3], e[4]]
    if k == 'bcast-ret':
        return [k]
    return list(e)
