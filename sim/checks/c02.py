"""C02 - a saved session restores to an observationally equivalent session.

Engine E2.  Save-then-restore is a checkpoint / crash / restart: ``restart`` is one more generated
operation (save -> every in-memory object is dropped -> restore from the file -> the run continues on the
restored session, which is mutated, saved and restored again).  Storage faults (K6) are attached to a
fraction of saves and restores.  Oracle (C): user-visible snapshot equality, idempotence, loud failure.
"""
import gc
import inspect
import os
import shutil
import tempfile
import warnings

import numpy as np

from sim.core import Violation
from sim import world as W
from sim import seams
from sim import linkfuncs as LF
from sim.checks.c04 import attrs_of

PROP = 'C02'
TIERS = {
    'quick': {'runs': 2400, 'blocks': 16, 'max_ops': 22},
    'thorough': {'runs': 48000, 'blocks': 64, 'max_ops': 50},
}
RULE = ('Each run is one seeded session history: datasets created in memory (1-3-d; float with NaN/inf, integer, categorical and datetime '
        'on 1-d; identity / affine coordinates) or loaded from CSV files (so they can be saved by reference), derived attributes, links of '
        'every helper kind (one-way, with inverse, identity, LinkSame, LinkTwoWay, MultiLink, LinkAligned, JoinLink), key joins, subset '
        'groups over every SubsetState / Roi class found by introspection of glue.core.subset and glue.core.roi, labels, styles, metadata; '
        'interleaved with restart(include_data on/off, absolute/relative paths, storage fault, immediate second round trip). The run '
        'continues on the restored session. Non-trivial: >=1 fault-free restart compared a session with >=1 dataset and >=1 group or link. '
        'distinct_nontrivial counts distinct (state-class multiset of the groups, link-kind multiset, #datasets, include_data, component-kind '
        'set) fingerprints at compared restarts.')
EXPLANATION = ('Snapshot = per dataset label, shape, component labels in order with kind, value digests (NaN-aware, dtype-aware), reachable '
               'linked attributes with value digests, mask of every group (or "incompatible"), style, serialisable metadata; per group label, '
               'style, state class tree; number of registered links by class. Fault-free: restored == before, and a second save/restore of '
               'the restored session == restored. If save raises: accepted (loud). Under an injected write fault: either save raises or the '
               'file restores to an equal session; a torn / truncated / missing / empty file must make restore raise.')
REAL = ['glue.core.state (GlueSerializer / GlueUnSerializer and every registered saver/loader)', 'glue.core.application_base save_session / '
        'restore_session', 'glue.core.data_factories (load_data, LoadLog)', 'all glue.core.subset and glue.core.roi classes', 'real session and CSV files']
STUB = ['fault-injecting file object bound as glue.core.application_base.open', 'uuid and identity-hash streams']
ASSUMPTIONS = ['bit flips inside complete JSON files are not injected (nothing in glue claims to detect them)',
               'link functions are importable module-level functions', 'sampling, not proof']
PROBES = ['restart_with_groups', 'restart_with_links', 'restart_with_joins', 'restart_by_reference', 'restart_relative_paths',
          'double_round_trip', 'second_generation_restart', 'fault_torn_write', 'fault_enospc', 'fault_open', 'fault_close',
          'fault_truncated_read', 'fault_missing_read', 'fault_empty_read', 'save_failed_loudly', 'metadata_unserialisable_filtered', 'saved_without_restart', 'values_rewritten_in_place',
          'datetime_component', 'categorical_component', 'multi_key_join', 'session_saved_in_another_directory', 'categorical_jitter', 'two_input_link_with_own_input', 'coordinates_set_later', 'coordinates_set_on_file_dataset', 'function_with_borrowed_name']

LEAFKINDS = ['ineq', 'range', 'mrange', 'roi', 'roix', 'mask', 'slice', 'elem', 'catroi', 'cat', 'cat2d', 'catmr', 'flood', 'roi3d',
             'roind', 'empty']
LINKKINDS = [('oneway', 2), ('oneway_inv', 2), ('identity', 1), ('same', 2), ('twoway', 2), ('multi', 1), ('aligned', 1), ('join', 2)]
WEIGHTS = {'new': 3, 'new_file': 2.5, 'append': 3, 'remove': 0.7, 'add_derived': 1.5, 'add_link': 4, 'join': 1.5, 'new_group': 6,
           'set_state': 2, 'set_label': 1, 'set_style': 1, 'set_dstyle': 1, 'set_meta': 1.5, 'remove_group': 0.5, 'restart': 4,
           'remove_link': 0.5, 'reorder': 0.7, 'jitter': 0.7, 'set_coords': 0.8, 'checkpoint': 1.2, 'upd_inplace': 1.2}
FAULTS = [None, None, None, None, 'torn', 'enospc', 'open_enoent', 'open_enospc', 'closefail', 'read_truncated', 'read_missing',
          'read_empty', 'read_dir']


def covered_classes():
    """Introspection: which SubsetState / Roi classes exist, and which of them the recipe language can build."""
    from glue.core import subset as S, roi as R
    states = sorted(n for n, c in vars(S).items() if inspect.isclass(c) and issubclass(c, S.SubsetState))
    rois = sorted(n for n, c in vars(R).items() if inspect.isclass(c) and issubclass(c, R.Roi) and not n.startswith(('Mpl', 'Abstract')))
    return states, rois


def generate(rng, cfg, guards):
    n = rng.randrange(5, cfg['max_ops'] + 1)
    w = {}
    for k, v in sorted(WEIGHTS.items()):
        if k in ('new', 'append', 'new_group', 'restart') or rng.chance(0.75):
            w[k] = v * rng.pick([0.5, 1, 2])
    pairs = sorted(w.items())
    kinds = [k for k in LEAFKINDS if ('C02-state-' + k) not in guards]
    r8 = lambda: rng.randrange(8)
    ops = []
    for i in range(rng.randrange(1, 3)):
        ops.append(['new', rng.randrange(len(W.SHAPES)), rng.randrange(1, 3), rng.randrange(10000), rng.chance(0.5), rng.pick([0, 0, 1, 2]),
                    rng.chance(0.4), rng.chance(0.3)])
        ops.append(['append', i])
    with_faults = rng.chance(0.35)
    while len(ops) < n:
        k = rng.wpick(pairs)
        if k == 'new':
            ops.append(['new', rng.randrange(len(W.SHAPES)), rng.randrange(1, 3), rng.randrange(10000), rng.chance(0.5), rng.pick([0, 0, 1, 2]),
                        rng.chance(0.4), rng.chance(0.3)])
        elif k == 'new_file':
            ops.append([k, rng.randrange(3, 7), rng.randrange(1, 3), rng.randrange(10000), rng.chance(0.7)])
        elif k in ('append', 'remove', 'remove_group', 'remove_link'):
            ops.append([k, r8()])
        elif k == 'add_derived':
            ops.append([k, r8(), r8(), rng.pick(sorted(LF.ONE)), rng.chance(0.12)])
        elif k == 'add_link':
            ops.append([k, rng.wpick(LINKKINDS), r8(), r8(), r8(), r8(), rng.pick(sorted(LF.ONE)), r8(), rng.pick(sorted(LF.TWO)), rng.chance(0.4)])
        elif k == 'join':
            ops.append([k, r8(), r8(), r8(), r8()])
            if rng.chance(0.5):
                # ... and a selection on the partner, which the first dataset can only evaluate through the join
                ops.append(['new_group', ['ineq', ops[-1][3], r8(), rng.randrange(6), rng.randrange(-3, 12) + 0.5]])
        elif k == 'new_group':
            ops.append([k, W.gen_recipe(rng, rng.pick([0, 1, 2]), kinds, multior='C02-state-multior' not in guards)])
        elif k == 'set_state':
            ops.append([k, r8(), W.gen_recipe(rng, rng.pick([0, 1, 2]), kinds, multior='C02-state-multior' not in guards)])
        elif k == 'set_label':
            ops.append([k, r8(), r8()])
        elif k == 'set_style':
            a = rng.pick(sorted(W.STYLE_VALUES))
            ops.append([k, r8(), a, r8()])
        elif k == 'set_dstyle':
            a = rng.pick(sorted(W.STYLE_VALUES))
            ops.append([k, r8(), a, r8()])
        elif k == 'set_meta':
            ops.append([k, r8(), rng.randrange(6), rng.randrange(8)])
        elif k == 'checkpoint':
            # the session is saved (an autosave) and work goes on in the same process
            ops.append([k, rng.chance(0.7)])
        elif k == 'upd_inplace':
            # values changed by writing into the array the dataset already holds, then announced through update_components
            ops.append([k, r8(), r8(), rng.randrange(10000)])
        elif k == 'reorder':
            ops.append([k, r8(), rng.randrange(1000)])
        elif k == 'jitter':
            ops.append([k, r8(), rng.chance(0.8)])
        elif k == 'set_coords':
            ops.append([k, r8(), rng.pick([1, 2, 2, 0])])
        else:
            fault = rng.pick(FAULTS) if with_faults else None
            ops.append(['restart', rng.chance(0.7), rng.chance(0.6), fault, rng.randrange(1, 4000), rng.chance(0.3), rng.pick([0, 0, 0, 1, 2, 3])])
    if rng.chance(0.12):
        # autosave, then values rewritten inside the arrays the session already holds, then the crash: the second file must hold the new values
        h = r8()
        nj = rng.randrange(1, 4)
        ops += [['upd_inplace', h, j, rng.randrange(10000)] for j in range(nj)] + [['checkpoint', True]] + \
            [['upd_inplace', h, j, rng.randrange(10000)] for j in range(nj)] + [['restart', True, True, None, 0, False, 0]]
    ops.append(['restart', rng.chance(0.7), rng.chance(0.6), None, 0, rng.chance(0.5), rng.pick([0, 0, 1, 2, 3])])
    return {'knobs': {'guards': list(guards), 'prop': PROP}, 'ops': ops}


def simplify(case):
    ops = case['ops']
    for i, op in enumerate(ops):
        if op[0] in ('new_group', 'set_state'):
            r = op[-1]
            subs = []
            if r[0] in ('and', 'or', 'xor'):
                subs = [r[1], r[2]]
            elif r[0] == 'not':
                subs = [r[1]]
            elif r[0] == 'multior':
                subs = list(r[1])
            for sub in subs:
                new = list(ops)
                new[i] = op[:-1] + [sub]
                yield dict(case, ops=new)
        if op[0] == 'restart' and (op[3] is not None or op[5] or not op[1] or len(op) > 6):
            new = list(ops)
            new[i] = ['restart', True, True, None, 0, False]
            yield dict(case, ops=new)


META_VALUES = ['text', 3, 2.5, [1, 2, 3], {'nested': {'a': 1, 'b': [1.5, 'x']}}, None, ('g', 'r', 'i')]


def class_tree(st):
    n = type(st).__name__
    kids = [x for x in (getattr(st, 'state1', None), getattr(st, 'state2', None)) if x is not None]
    kids += list(getattr(st, 'states', []))
    roi = getattr(st, 'roi', None)
    out = [n] + [class_tree(k) for k in kids]
    if roi is not None:
        out.append('roi:' + type(roi).__name__)
        r2 = getattr(roi, 'roi_2d', None)
        if r2 is not None:
            out.append('roi2d:' + type(r2).__name__)
    return out


def flat_classes(t, out):
    for x in t:
        if isinstance(x, list):
            flat_classes(x, out)
        else:
            out.append(x)
    return out


def snapshot(w, relax_links=False):
    from glue.core.exceptions import IncompatibleAttribute
    # stale memoised masks are C05's subject (open findings there); this observer compares what the objects mean
    seams.clear_memo_caches()
    dc = w.dc
    out = {'data': [], 'groups': [], 'links': sorted(type(l).__name__ for l in dc.external_links)}
    groups = list(dc.subset_groups)
    nlinks = 2 if relax_links else len(dc.external_links)
    for d in dc:
        rec = {'label': d.label, 'shape': list(d.shape), 'comps': [], 'ext': [], 'masks': [], 'style': sorted(W.style_of(d.style).items()),
               'meta': None, 'coords': type(d.coords).__name__}
        for c in d.components:
            kind = ('pixel' if c in d.pixel_component_ids else 'world' if c in d.world_component_ids else
                    'derived' if c in d.derived_components else 'main')
            try:
                dig = W.arr_digest(d[c])
            except Exception as e:
                dig = 'error:%s' % type(e).__name__
            rec['comps'].append([c.label, kind, dig])
        for c in d.externally_derivable_components:
            if c not in d.components:
                try:
                    dig = W.arr_digest(d[c])
                except Exception as e:
                    dig = 'error:%s' % type(e).__name__
                # with several registered links, which of several equal-cost chains is installed is implementation freedom
                # (set order), so values of linked attributes are compared only when the chain is unique
                rec['ext'].append(['%s.%s' % (getattr(c.parent, 'label', None), c.label), dig if nlinks <= 1 else 'reachable'])
        rec['ext'].sort()
        for gi, g in enumerate(groups):
            st, m = W.mask_of(d, g.subset_state)
            if any(getattr(a, 'parent', None) is not None and not any(a.parent is x for x in dc) for a in attrs_of(g.subset_state, [])) or \
                    bound_outside(g.subset_state, dc) or \
                    (joined_outside(d, dc) and not evaluates_directly(d, g.subset_state)):
                # the selection is defined on attributes of a dataset that has left the collection: whether a dataset still in
                # it can evaluate it depends on what the departed dataset (not part of the session) still carries - links that
                # were dropped when it left survive on it as stale derived components until it is re-appended
                rec['masks'].append([gi, 'defined-outside-the-collection'])
            elif st != 'incompatible' and nlinks > 1 and not all(any(a is c for c in d.components) for a in attrs_of(g.subset_state, [])):
                # the mask depends on linked values whose derivation chain is not unique (see 'ext')
                rec['masks'].append([gi, 'evaluable'])
            else:
                rec['masks'].append([gi, W.arr_digest(m) if st == 'ok' else st])
        meta = {}
        for k, v in d.meta.items():
            if isinstance(k, str) and json_able(v):
                meta[k] = v
        rec['meta'] = sorted((k, repr(listify(v))) for k, v in meta.items())
        # key joins as defined: partner, key attributes on this side, key attributes on the other side (in order: first with first)
        rec['joins'] = sorted([getattr(o, 'label', None), [c.label for c in c1], [c.label for c in c2]]
                              for o, (c1, c2) in getattr(d, '_key_joins', {}).items())
        out['data'].append(rec)
    for g in groups:
        out['groups'].append({'label': g.label, 'style': sorted(W.style_of(g.style).items()), 'tree': class_tree(g.subset_state),
                              'members': len(g.subsets)})
    return out


def first_substituted(a, b):
    """Class name of the outermost node of the saved tree that came back as something else."""
    if not isinstance(a, list) or not isinstance(b, list):
        return str(a)
    if a[0] != b[0] or len(a) != len(b):
        return a[0]
    for x, y in zip(a[1:], b[1:]):
        if x != y:
            return first_substituted(x, y) if isinstance(x, list) else str(x)
    return 'structure'


def listify(v):
    # a tuple comes back as a list (JSON has no tuples): compared by content
    if isinstance(v, (list, tuple)):
        return [listify(x) for x in v]
    if isinstance(v, dict):
        return dict((k, listify(x)) for k, x in v.items())
    return v


def json_able(v):
    if v is None or isinstance(v, (str, int, float, bool)):
        return True
    if isinstance(v, (list, tuple)):
        return all(json_able(x) for x in v)
    if isinstance(v, dict):
        return all(isinstance(k, str) and json_able(x) for k, x in v.items())
    return False


def evaluates_directly(d, st):
    """Can d evaluate the selection itself, i.e. without going through a key join?"""
    from glue.core.exceptions import IncompatibleAttribute
    try:
        st.to_mask(d)
    except IncompatibleAttribute:
        return False
    except Exception:
        pass
    return True


def joined_outside(d, dc):
    """Is d key-joined, directly or through a chain, to a dataset that is not in the collection?  (What such a dataset can
    evaluate for d depends on what it still carries from before it left; it is not part of the saved session.)"""
    seen, todo = [d], [d]
    while todo:
        x = todo.pop()
        for other in getattr(x, '_key_joins', {}):
            if not any(other is s_ for s_ in seen):
                if not any(other is y for y in dc):
                    return True
                seen.append(other)
                todo.append(other)
    return False


def bound_outside(st, dc):
    """An element selection is bound to one dataset (by uuid): is that dataset outside the collection?"""
    uuids = set(d.uuid for d in dc)
    kids = [x for x in (getattr(st, 'state1', None), getattr(st, 'state2', None)) if x is not None] + list(getattr(st, 'states', ()))
    if any(bound_outside(k, dc) for k in kids):
        return True
    u = getattr(st, '_data_uuid', None)
    return u is not None and u not in uuids


def first_diff(a, b):
    if a['links'] != b['links']:
        return 'links', 'registered links %s vs %s' % (a['links'], b['links'])
    if len(a['data']) != len(b['data']):
        return 'datasets', 'number of datasets %d vs %d' % (len(a['data']), len(b['data']))
    if len(a['groups']) != len(b['groups']):
        return 'groups', 'number of groups %d vs %d' % (len(a['groups']), len(b['groups']))
    for gi, (ga, gb) in enumerate(zip(a['groups'], b['groups'])):
        if ga['tree'] != gb['tree']:
            return 'substituted:%s' % first_substituted(ga['tree'], gb['tree']), 'group %d selection was %s, restored as %s' % (gi, ga['tree'], gb['tree'])
        for key in ('label', 'style', 'members'):
            if ga[key] != gb[key]:
                return 'group-' + key, 'group %d %s: %r vs %r' % (gi, key, ga[key], gb[key])
    for da, db in zip(a['data'], b['data']):
        # masks of selections defined on a dataset outside the collection (on either side) are not compared (see snapshot)
        wild = set(m[0] for m in da['masks'] + db['masks'] if m[1] == 'defined-outside-the-collection')
        if wild:
            da = dict(da, masks=[m for m in da['masks'] if m[0] not in wild])
            db = dict(db, masks=[m for m in db['masks'] if m[0] not in wild])
        for key in ('label', 'shape', 'coords', 'comps', 'ext', 'masks', 'style', 'meta', 'joins'):
            if da.get(key) != db.get(key):
                xa = [x for x in da[key] if x not in db[key]] if isinstance(da[key], list) else da[key]
                xb = [x for x in db[key] if x not in da[key]] if isinstance(db[key], list) else db[key]
                detail = ''
                if key == 'masks' and xa:
                    gi = xa[0][0]
                    detail = ' state %s' % a['groups'][gi]['tree']
                return key, 'dataset %s %s: before %s after %s%s' % (da['label'], key, str(xa)[:300], str(xb)[:300], detail)
    return None, None


class SessionWorld(W.World):
    def __init__(self, knobs, res, tmp):
        W.World.__init__(self, knobs, res, tmp)
        self.links = []
        self.nfiles = 0
        self.nv = 0
        self.generation = 0
        self.fired_before = {}


def execute(case, res):
    tmp = tempfile.mkdtemp(prefix='verif-c02-')
    import glue.core.application_base as AB
    fs = seams.SimFS()
    fs.patch(AB)
    try:
        with warnings.catch_warnings():
            warnings.simplefilter('ignore')
            _execute(case, res, tmp, fs)
    finally:
        fs.unpatch()
        shutil.rmtree(tmp, ignore_errors=True)


def _execute(case, res, tmp, fs):
    from glue.core.component_id import ComponentID
    from glue.core.component_link import ComponentLink
    from glue.core import link_helpers as LH
    from glue.core.data_factories import load_data
    w = SessionWorld(case['knobs'], res, tmp)
    for op in case['ops']:
        k = op[0]
        res.nops += 1
        dc = w.dc
        res.log.append([k])
        try:
            if k == 'new':
                d = w.new_data(op[1], op[2], op[3], cat=op[4], coords=op[5], special=op[6])
                d.add_component(W.values(op[3] + 31, d.shape, 'intdtype'), 'i%d' % w.ndata)
                if op[4] and d.ndim == 1:
                    res.probe('categorical_component')
                if op[7] and d.ndim == 1:
                    base = np.datetime64('2020-01-01')
                    d.add_component(base + W.values(op[3] + 7, d.shape, 'intdtype').astype('timedelta64[D]'), 't%d' % w.ndata)
                    res.probe('datetime_component')
            elif k == 'new_file':
                from sim.checks.c05 import write_csv
                w.nfiles += 1
                path = os.path.join(tmp, 'data%d.csv' % w.nfiles)
                write_csv(path, op[1], op[2], op[3])
                d = load_data(path)
                w.pool.append(d)
                if len(op) > 4 and op[4]:
                    dc.append(d)
            elif k == 'append':
                d = w.pick_pool(op[1])
                if d is not None:
                    dc.append(d)
            elif k == 'remove':
                d = w.pick_data(op[1])
                if d is not None and len(dc) > 1:
                    dc.remove(d)
            elif k == 'add_derived':
                d = w.pick_data(op[1])
                if d is not None:
                    src = w.pick_cid(d, op[2], True)
                    w.nv += 1
                    fn = LF.ONE[op[3]][0]
                    if len(op) > 4 and op[4] and op[3] in LF.NAMESAKES:
                        # a function that cannot be named faithfully in a session file (the save has to fail loudly)
                        fn = LF.NAMESAKES[op[3]]
                        res.probe('function_with_borrowed_name')
                    d.add_component_link(ComponentLink([src], ComponentID('v%d_%d' % (w.generation, w.nv), parent=d), using=fn))
            elif k == 'add_link':
                _, kind, h1, c1, h2, c2, f1, c3, f2 = op[:9]
                d1, d2 = w.pick_data(h1), w.pick_data(h2)
                if d1 is None or d1 is d2:
                    continue
                a, b, a2 = w.pick_cid(d1, c1, True), w.pick_cid(d2, c2, True), w.pick_cid(d1, c3, True)
                if kind == 'multi' and len(op) > 9 and op[9]:
                    # the second input lives in the dataset of the output (b <- f(d1.a, d2.a2))
                    own = [c for c in w.cids_of(d2, True) if c is not b]
                    if own:
                        a2 = own[c3 % len(own)]
                        res.probe('two_input_link_with_own_input')
                fw, bw = LF.ONE[f1]
                if kind == 'oneway':
                    obj = ComponentLink([a], b, using=fw)
                elif kind == 'oneway_inv':
                    obj = ComponentLink([a], b, using=fw, inverse=bw)
                elif kind == 'identity':
                    obj = ComponentLink([a], b)
                elif kind == 'same':
                    obj = LH.LinkSame(a, b)
                elif kind == 'twoway':
                    obj = LH.LinkTwoWay(a, b, fw, bw)
                elif kind == 'multi':
                    obj = LH.MultiLink([a, a2], [b], forwards=LF.TWO[f2], labels2=['out'])
                elif kind == 'aligned':
                    if d1.shape != d2.shape:
                        continue
                    obj = LH.LinkAligned(d1, d2)
                else:
                    m1 = [c for c in d1.main_components]
                    m2 = [c for c in d2.main_components]
                    if d1.ndim != 1 or d2.ndim != 1 or any(isinstance(l, LH.JoinLink) for l in dc.external_links):
                        continue
                    if getattr(d1, '_key_joins', None) or getattr(d2, '_key_joins', None):
                        continue    # a JoinLink and a manual join on one pair contradict each other: which one wins is not defined
                    obj = LH.JoinLink(cids1=[m1[c1 % len(m1)]], cids2=[m2[c2 % len(m2)]], data1=d1, data2=d2)
                dc.add_link(obj)
            elif k == 'remove_link':
                links = list(dc.external_links)
                if links:
                    dc.remove_link(links[op[1] % len(links)])
            elif k == 'join':
                d1, d2 = w.pick_data(op[1]), w.pick_data(op[3])
                if d1 is None or d1 is d2 or d1.ndim != 1 or d2.ndim != 1:
                    continue
                if any(isinstance(l, LH.JoinLink) for l in dc.external_links):
                    continue
                m1 = [c for c in d1.main_components if d1.get_kind(c) == 'numerical']
                m2 = [c for c in d2.main_components if d2.get_kind(c) == 'numerical']
                if (op[2] + op[4]) % 2 == 0 and len(m1) >= 2 and len(m2) >= 2:
                    # multi-column join; the order of the key tuples matters (first with first, second with second)
                    k1 = (m1[op[2] % len(m1)], m1[(op[2] + 1) % len(m1)])
                    k2 = (m2[op[4] % len(m2)], m2[(op[4] + 1) % len(m2)])
                    d1.join_on_key(d2, k1, k2)
                    res.probe('multi_key_join')
                else:
                    d1.join_on_key(d2, m1[op[2] % len(m1)], m2[op[4] % len(m2)])
            elif k == 'new_group':
                dc.new_subset_group(subset_state=w.build_state(op[1]))
            elif k == 'set_state':
                g = w.pick_group(op[1])
                if g is not None:
                    g.subset_state = w.build_state(op[2])
            elif k == 'jitter':
                # what the scatter viewer does to categorical attributes it plots: the numeric codes get display jitter,
                # the labels stay what they are
                d = w.pick_data(op[1])
                if d is not None:
                    for c in d.main_components:
                        if d.get_kind(c) == 'categorical':
                            d.get_component(c).jitter('uniform' if op[2] else None)
                            res.probe('categorical_jitter')
            elif k == 'set_coords':
                # coordinates attached (calibrated) or taken away after the dataset was made or read from its file
                d = w.pick_data(op[1])
                if d is not None:
                    d.coords = W.make_coords(op[2], d.ndim) if op[2] else None
                    res.probe('coordinates_set_later')
                    if hasattr(d, '_load_log'):
                        res.probe('coordinates_set_on_file_dataset')
            elif k == 'set_dstyle':
                d = w.pick_data(op[1])
                if d is not None:
                    vals = W.STYLE_VALUES[op[2]]
                    setattr(d.style, op[2], vals[op[3] % len(vals)])
            elif k == 'set_meta':
                d = w.pick_data(op[1])
                if d is not None:
                    if op[3] == 5:
                        d.meta['handle%d' % op[2]] = object()      # cannot be serialised: documented to be filtered out
                        res.probe('metadata_unserialisable_filtered')
                    elif op[3] == 7:
                        # a tuple with an item that cannot be serialised (filtered out) - other tuples can be
                        d.meta['origin%d' % op[2]] = ('reader', object())
                        res.probe('metadata_unserialisable_filtered')
                    else:
                        d.meta['key%d' % op[2]] = META_VALUES[op[3] % len(META_VALUES)]
            elif k == 'checkpoint':
                try:
                    w.save(include_data=op[1])
                    res.probe('saved_without_restart')
                except Exception:
                    pass        # a save that fails loudly is accepted (restart judges it)
            elif k == 'upd_inplace':
                d = w.pick_data(op[1])
                if d is not None:
                    mains = [c for c in d.main_components if d.get_kind(c) == 'numerical' and d[c].dtype.kind == 'f'
                             and not hasattr(d.get_component(c), '_load_log')]
                    if mains:
                        c = mains[op[2] % len(mains)]
                        arr = d.get_component(c).data
                        if isinstance(arr, np.ndarray) and arr.flags.writeable:
                            arr[...] = W.values(op[3], d.shape)
                            d.update_components({c: arr})
                            res.probe('values_rewritten_in_place')
                        elif isinstance(arr, np.ndarray):
                            # the dataset holds a read-only array: it gets one of its own first (later calls write into that one)
                            d.update_components({c: np.array(W.values(op[3], d.shape))})
            elif k == 'upd':
                d = w.pick_data(op[1])
                if d is not None:
                    mains = [c for c in d.main_components if d.get_kind(c) == 'numerical' and d[c].dtype.kind == 'f'
                             and not hasattr(d.get_component(c), '_load_log')]
                    if mains:
                        d.update_components({mains[op[2] % len(mains)]: W.values(op[3], d.shape)})
            elif k == 'reorder':
                d = w.pick_data(op[1])
                if d is not None:
                    cs = list(d.components)
                    d.reorder_components([cs[i] for i in np.random.RandomState(op[2]).permutation(len(cs))])
            elif k == 'restart':
                restart(w, res, fs, op)
            else:
                out = W.exec_common(w, op)
                if out is None:
                    raise ValueError(op)
        except W.OpCrash as e:
            raise Violation('C02/crash/%s:%s' % (k, type(e.exc).__name__), str(e))
        except (ValueError, TypeError, AssertionError, KeyError, IndexError) as e:
            if k == 'restart':
                raise
            # invalid combinations of generated arguments are rejected loudly by glue: not this property's business
            res.log.append(['rejected', k, type(e).__name__])


def where(e):
    """Exception type and the innermost glue frame it came from (part of the violation signature)."""
    import traceback
    frames = [f for f in traceback.extract_tb(e.__traceback__) if '/glue/' in f.filename]
    if frames:
        return '%s@%s:%s' % (type(e).__name__, os.path.basename(frames[-1].filename), frames[-1].name)
    return type(e).__name__


def fingerprint(w, include_data):
    dc = w.dc
    classes = sorted(set(c for g in dc.subset_groups for c in flat_classes(class_tree(g.subset_state), [])))
    kinds = set()
    for d in dc:
        for c in d.main_components:
            kinds.add(d.get_kind(c))
        if d.derived_components:
            kinds.add('derived')
        if d.coords is not None:
            kinds.add(type(d.coords).__name__)
    return [classes, sorted(type(l).__name__ for l in dc.external_links), len(dc), bool(include_data), sorted(kinds)]


def restart(w, res, fs, op):
    _, include_data, absolute, fault, fparam, double = op[:6]
    # storage layout knob: which directory the session file goes to (the data files stay where they were read from)
    place = op[6] if len(op) > 6 else 0
    sdir = os.path.join(w.tmp, ['', 'a', os.path.join('a', 'b'), 'c'][place])
    sdir2 = os.path.join(w.tmp, ['', 'a', 'c', os.path.join('a', 'b')][place])
    for dd in (sdir, sdir2):
        os.makedirs(dd, exist_ok=True)
    if place:
        res.probe('session_saved_in_another_directory')
    dc = w.dc
    before = snapshot(w)
    has_file_data = any(hasattr(d, '_load_log') for d in dc)
    fp = fingerprint(w, include_data)
    if len(dc.subset_groups):
        res.probe('restart_with_groups')
    if len(dc.external_links):
        res.probe('restart_with_links')
    if any(getattr(d, '_key_joins', None) for d in dc):
        res.probe('restart_with_joins')
    if not include_data and has_file_data:
        res.probe('restart_by_reference')
    if not absolute:
        res.probe('restart_relative_paths')
    if w.generation >= 1:
        res.probe('second_generation_restart')
    w.nsave += 1
    path = os.path.join(sdir, 's%d.glu' % w.nsave)
    write_fault = fault in ('torn', 'enospc', 'open_enoent', 'open_enospc', 'closefail')
    if write_fault:
        fs.arm(fault, budget=fparam, match='.glu')
    saved, crashed = True, False
    try:
        w.app.save_session(path, include_data=include_data, absolute_paths=absolute)
    except seams.SimCrash:
        crashed = True
        saved = False
    except Exception as e:
        saved = False
        res.probe('save_failed_loudly')
        res.log.append(['save-raised', type(e).__name__])
    finally:
        fired = dict(fs.counts)
        fs.disarm()
    if write_fault:
        for kk, probe in (('torn', 'fault_torn_write'), ('enospc', 'fault_enospc'), ('open_enoent', 'fault_open'),
                          ('open_enospc', 'fault_open'), ('closefail', 'fault_close')):
            if fired.get(kk, 0) > w.fired_before.get(kk, 0):
                res.fault('storage_' + kk)
                res.probe(probe)
        w.fired_before = fired
    if crashed or (not saved and write_fault):
        # the process "died" (torn file) or the save failed loudly under an injected fault: whatever is on disk must not
        # restore silently to something else.  A partial file must make restore raise.
        if os.path.exists(path) and os.path.getsize(path) > 0:
            try:
                app = type(w.app).restore_session(path)
            except Exception:
                app = None
            if app is not None:
                w2 = SessionWorld(w.knobs, res, w.tmp)
                w2.app = app
                d, detail = first_diff(before, snapshot(w2))
                if d is not None:
                    raise Violation('C02/partial-file-restores-differently/%s' % fault, detail)
        return      # continue on the in-memory session (the fault did not happen as far as the rest of the run is concerned)
    if not saved:
        return      # save failed loudly without any injected fault: accepted by the statement
    # ---- read-side faults
    if fault in ('read_truncated', 'read_missing', 'read_empty', 'read_dir'):
        bad = path + '.bad'
        data = open(path, 'rb').read()
        if fault == 'read_truncated':
            cut = max(1, min(len(data) - 1, fparam % max(2, len(data))))
            open(bad, 'wb').write(data[:cut])
            res.probe('fault_truncated_read')
        elif fault == 'read_empty':
            open(bad, 'wb').close()
            res.probe('fault_empty_read')
        elif fault == 'read_dir':
            os.mkdir(bad)
            res.probe('fault_missing_read')
        else:
            res.probe('fault_missing_read')
        res.fault('storage_' + fault)
        try:
            type(w.app).restore_session(bad)
        except Exception:
            pass
        else:
            raise Violation('C02/damaged-file-restores-silently/%s' % fault, 'restore_session returned a session from a %s file' % fault)
    # ---- crash: drop everything, restore
    appcls = type(w.app)
    w.app = None
    w.pool = []
    gc.collect()
    try:
        app = appcls.restore_session(path)
    except Exception as e:
        raise Violation('C02/restore-fails/%s' % where(e), 'session saved without error cannot be restored: %s: %s' % (type(e).__name__, str(e)[:300]))
    w.rebind(app)
    w.generation += 1
    res.fault('crash_restart')
    after = snapshot(w)
    res.nchecks += 1
    if before['data'] and (before['groups'] or before['links']):
        res.nontrivial = True
        res.fp(*fp)
    key, detail = first_diff(before, after)
    res.log.append(['restart', W.arr_digest(np.frombuffer(repr(after).encode(), dtype=np.uint8))])
    if key is not None:
        raise Violation('C02/not-equivalent/%s' % key, detail)
    if double:
        res.probe('double_round_trip')
        w.nsave += 1
        path2 = os.path.join(sdir2, 's%d.glu' % w.nsave)
        try:
            w.app.save_session(path2, include_data=include_data, absolute_paths=absolute)
        except Exception as e:
            raise Violation('C02/second-save-fails/%s' % type(e).__name__, 'a restored session cannot be saved again: %s' % str(e)[:300])
        w.app = None
        w.pool = []
        gc.collect()
        try:
            app = appcls.restore_session(path2)
        except Exception as e:
            raise Violation('C02/restore-fails/second-generation:%s' % type(e).__name__, str(e)[:300])
        w.rebind(app)
        w.generation += 1
        key, detail = first_diff(after, snapshot(w))
        res.nchecks += 1
        if key is not None:
            raise Violation('C02/not-idempotent/%s' % key, detail)
