"""C14 - derived attributes compute their defining expression and go with their inputs.

Engine E2, oracle (A).  Histories on one dataset (inside or outside a collection): stored components,
derived ones from arithmetic trees (BinaryComponentLink), user functions (ComponentLink) and parsed text
(ParsedCommand / ParsedComponentLink) over stored / pixel / world / derived inputs; then remove / add /
update_id / update_components / reorder, with reads under views in between.  The harness holds the raw
arrays it supplied and the expression tree of every derived attribute, and evaluates them with numpy.
"""
import operator

import numpy as np

from sim.core import Violation
from sim import world as W
from sim import linkfuncs as LF

PROP = 'C14'
TIERS = {
    'quick': {'runs': 4800, 'blocks': 16, 'max_ops': 28},
    'thorough': {'runs': 96000, 'blocks': 64, 'max_ops': 60},
}
RULE = ('Each run: one dataset (1-3-d, float values with NaN/inf, optional identity/affine coordinates, in a collection or not) and a seeded '
        'history of: add stored attribute, add derived attribute defined by an arithmetic tree over + - * / ** with constants (depth <= 3), by a '
        'one- or two-input user function, or by a parsed text expression, over stored / pixel / world / previously derived inputs; remove an '
        'attribute; update_id; update_components; reorder_components; compare (values of every derived attribute under a generated view). '
        'Non-trivial: >=1 derived attribute compared. distinct_nontrivial counts distinct (definition kind, tree shape, input-kind set, view '
        'kind, ndim, #ops-since-definition bucket) fingerprints at comparisons.')
EXPLANATION = ('Model = raw arrays supplied by the harness + expression tree per derived attribute + dependency graph. Checks: '
               'data[derived, view] == numpy evaluation of the tree on the current raw values under the same view (NaN- and inf-aware, relative tolerance 1e-12 for numpy pow); after '
               'remove_component(c) the component list equals the old list minus the transitive dependants of c, in the old order; update_id keeps '
               'order and the values of every attribute, also of those defined on the replaced identifier; reorder keeps values.')
REAL = ['glue.core.component_link (ComponentLink, BinaryComponentLink, compute with unbroadcast/broadcast)', 'glue.core.parse (ParsedCommand, '
        'ParsedComponentLink)', 'glue.core.component.DerivedComponent', 'glue.core.data (add/remove/update_id/update_components/reorder)',
        'glue.core.component_id operators']
STUB = ['user link functions (sim/linkfuncs.py)', 'uuid and identity-hash streams']
ASSUMPTIONS = ['world-coordinate input values are read from glue (C15 is an input-space property); everything computed from them is modelled',
               'views are slice tuples / integers (C04 covers the view domain)', 'sampling, not proof']
PROBES = ['binary_tree', 'user_function', 'two_input_function', 'parsed_text', 'derived_of_derived', 'pixel_input', 'world_input', 'cascade_removed_ge_2',
          'compare_after_update', 'compare_after_reorder', 'compare_after_update_id', 'view_compare', 'in_collection', 'nan_propagated',
          'link_object_reused', 'ill_conditioned_elements_skipped', 'parsed_offered_unused_attributes', 'expression_repointed']

WEIGHTS = {'add_comp': 2, 'add_binary': 5, 'add_fn': 3, 'add_parsed': 3, 'remove': 2, 'update_id': 1, 'upd': 3, 'reorder': 1.5, 'compare': 5,
           'repoint': 1.5}
OPS = {'+': operator.add, '-': operator.sub, '*': operator.mul, '/': operator.truediv, '**': operator.pow}
VIEWS = [None, None, [[0, 3, 1]], [[1, 4, 2]], 'int0', [[0, 2, 1], [0, 2, 1]], [[0, 5, 2], [1, 2, 1], [0, 3, 2]]]


def gen_tree(rng, depth):
    if depth <= 0 or rng.chance(0.3):
        if rng.chance(0.3):
            return ['const', rng.pick([0, 1, 2, 3, -1, 0.5, 2.5])]
        if rng.chance(0.15):
            # the link *object* that defines an earlier derived attribute, used again as an operand (s = a + b; d['s'] = s; t = s * c)
            return ['lnk', rng.randrange(12)]
        return ['cid', rng.randrange(12)]
    op = rng.pick(['+', '-', '*', '/', '**'])
    l = gen_tree(rng, depth - 1)
    r = gen_tree(rng, depth - 1) if op != '**' else ['const', rng.pick([0, 1, 2, 3])]
    if l[0] == 'const' and r[0] == 'const':
        l = ['cid', rng.randrange(12)]
    return [op, l, r]


def generate(rng, cfg, guards):
    n = rng.randrange(5, cfg['max_ops'] + 1)
    w = {}
    for k, v in sorted(WEIGHTS.items()):
        if k in ('add_binary', 'compare') or rng.chance(0.8):
            w[k] = v * rng.pick([0.5, 1, 2])
    pairs = sorted(w.items())
    ops = [['new', rng.randrange(len(W.SHAPES)), rng.randrange(1, 4), rng.randrange(10000), rng.pick([0, 0, 1, 2]), rng.chance(0.5), rng.chance(0.6)]]
    while len(ops) < n:
        k = rng.wpick(pairs)
        if k == 'add_comp':
            ops.append([k, rng.randrange(10000)])
        elif k in ('add_binary', 'add_parsed'):
            ops.append([k, gen_tree(rng, rng.pick([1, 2, 3])), rng.chance(0.4)])
        elif k == 'add_fn':
            ops.append([k, rng.pick(sorted(LF.ONE) + sorted(LF.TWO)), rng.randrange(12), rng.randrange(12)])
        elif k in ('remove', 'update_id'):
            ops.append([k, rng.randrange(12)])
        elif k == 'repoint':
            ops.append([k, rng.randrange(12), rng.randrange(12), rng.randrange(12)])
        elif k == 'upd':
            ops.append([k, rng.randrange(12), rng.randrange(10000)])
        elif k == 'reorder':
            ops.append([k, rng.randrange(10000)])
        else:
            ops.append([k, rng.randrange(len(VIEWS))])
    ops.append(['compare', 0])
    return {'knobs': {'guards': list(guards), 'prop': PROP}, 'ops': ops}


def tree_shape(t):
    if t[0] in OPS:
        return [t[0], tree_shape(t[1]), tree_shape(t[2])]
    if t[0] == 'fn':
        return ['fn', len(t[2])]
    return t[0][0]


class Model(object):
    def __init__(self):
        self.raw = {}       # id(cid) -> array
        self.trees = {}     # id(cid) -> tree with ['ref', cid] leaves
        self.kinds = {}     # id(cid) -> definition kind
        self.age = {}
        self.unstable = []  # per evaluation: boolean arrays marking ill-conditioned elements
        self.links = {}     # id(cid) -> the link object that defines it
        self.orphan = set()
        self.keep = []      # strong references: the tables above are keyed by id(), which must never be reused

    def refs(self, t, out):
        if t[0] == 'ref':
            out.append(t[1])
        elif t[0] in OPS:
            self.refs(t[1], out)
            self.refs(t[2], out)
        elif t[0] == 'fn':
            for x in t[2]:
                self.refs(x, out)
        return out

    def depends_on(self, cid, target, seen=None):
        seen = seen or set()
        if id(cid) in seen:
            return False
        seen.add(id(cid))
        t = self.trees.get(id(cid))
        if t is None:
            return False
        for r in self.refs(t, []):
            if r is target or self.depends_on(r, target, seen):
                return True
        return False

    def evaluate(self, d, t, view, mags=None):
        """numpy evaluation of a tree; ``mags`` collects the magnitudes of all intermediate results (a last-bit difference in
        one of them - numpy's pow is not bit-reproducible - survives a cancelling subtraction at that absolute size)."""
        out = self._evaluate(d, t, view, mags)
        if mags is not None:
            with np.errstate(all='ignore'):
                a = np.abs(np.asarray(out, dtype=float))
            mags.append(np.where(np.isfinite(a), a, 0.0))
        return out

    def _evaluate(self, d, t, view, mags):
        k = t[0]
        if k == 'const':
            return t[1]
        if k == 'ref':
            cid = t[1]
            if id(cid) in self.raw:
                a = self.raw[id(cid)]
                return a if view is None else a[view]
            if id(cid) in self.trees:
                return self.evaluate(d, self.trees[id(cid)], view, mags)
            # pixel / world inputs
            if cid in d.pixel_component_ids:
                # Data computes pixel coordinates with np.ogrid, i.e. as integers (matters for signed zeros and pow)
                a = np.broadcast_to(np.arange(d.shape[cid.axis]).reshape(
                    tuple(-1 if i == cid.axis else 1 for i in range(d.ndim))), d.shape)
                return a if view is None else a[view]
            a = np.asarray(d[cid])          # world coordinate: read from glue (C15 is not this check's subject)
            return a if view is None else a[view]
        if k in OPS:
            with np.errstate(all='ignore'):
                left = self.evaluate(d, t[1], view, mags)
                if k == '/' and mags is not None:
                    # a denominator that cancels to (almost) nothing turns a last-bit difference into inf vs. a huge number:
                    # such elements are ill-conditioned and not compared
                    sub = []
                    right = self.evaluate(d, t[2], view, sub)
                    scale = 0.0
                    for mg in sub:
                        scale = np.maximum(scale, mg)
                    a = np.abs(np.asarray(right, dtype=float))
                    self.unstable.append(np.where(np.isfinite(a), a, np.inf) <= 1e-9 * scale)
                    mags.extend(sub)
                else:
                    right = self.evaluate(d, t[2], view, mags)
                return OPS[k](left, right)
        if k == 'fn':
            args = [np.asarray(self.evaluate(d, x, view, mags)) for x in t[2]]
            f = LF.ONE[t[1]][0] if t[1] in LF.ONE else LF.TWO[t[1]]
            return f(*args)
        raise ValueError(t)


def same(a, b, scale=None):
    a, b = np.asarray(a, dtype=float), np.asarray(b, dtype=float)
    if a.shape != b.shape:
        return False
    with np.errstate(all='ignore'):
        # exact, except that numpy's vectorised pow may differ from its scalar loop in the last bit depending on array
        # length and alignment: a relative tolerance of 1e-12 covers that and nothing a wrong expression would produce.
        # ``scale``: the largest intermediate magnitude per element - the difference survives cancellation at that size
        ref = np.maximum(np.abs(a), np.abs(b))
        if scale is not None:
            ref = np.maximum(np.where(np.isfinite(ref), ref, 0.0), scale)
        close = np.abs(a - b) <= 1e-12 * ref
    return bool(np.all((a == b) | (np.isnan(a) & np.isnan(b)) | close))


def execute(case, res):
    import warnings
    with warnings.catch_warnings():
        warnings.simplefilter('ignore')
        _execute(case, res)


def _execute(case, res):
    from glue.core.component_id import ComponentID
    from glue.core.component_link import ComponentLink
    from glue.core.parse import ParsedCommand, ParsedComponentLink
    from glue.core.exceptions import IncompatibleAttribute
    w = W.World(case['knobs'], res, None)
    m = Model()
    d = None
    nname = [0]
    since = {'upd': False, 'reorder': False, 'update_id': False}
    shared = [set(), False]     # attributes whose defining link object is (part of) another one's: re-pointing one would re-point the other

    def candidates():
        return [c for c in d.components if id(c) not in m.orphan]

    def bind(t, parsed=False):
        """Resolve symbolic leaves against the current component list; returns (tree with refs, glue expression, text, refs)."""
        k = t[0]
        if k == 'const':
            return ['const', t[1]], t[1], repr(t[1]), {}
        if k == 'lnk':
            cs = [c for c in d.derived_components if id(c) in m.links and id(c) in m.trees and id(c) not in m.orphan]
            if parsed or not cs:
                k = 'cid'
            else:
                c = cs[t[1] % len(cs)]
                res.probe('link_object_reused')
                shared[0].add(id(c))
                shared[1] = True
                return m.trees[id(c)], m.links[id(c)], None, {}
        if k == 'cid':
            cs = [c for c in candidates() if d.get_kind(c) == 'numerical']
            c = cs[t[1] % len(cs)]
            tag = 'r%d' % (t[1] % len(cs))
            return ['ref', c], c, '{%s}' % tag, {tag: c}
        lt, le, ls, lr = bind(t[1], parsed)
        rt, re_, rs, rr = bind(t[2], parsed)
        lr.update(rr)
        return [k, lt, rt], OPS[k](le, re_), '(%s %s %s)' % (ls, k, rs), lr

    for op in case['ops']:
        k = op[0]
        res.nops += 1
        res.log.append([k])
        if d is not None:
            m.keep.extend(c for c in d.components if not any(c is x for x in m.keep[-40:]))
        if k == 'new':
            d = w.new_data(op[1], op[2], op[3], cat=False, coords=op[4], special=op[5])
            for c in d.main_components:
                m.raw[id(c)] = np.array(d[c])
            if op[6]:
                w.dc.append(d)
                res.probe('in_collection')
            continue
        if d is None:
            continue
        if k == 'add_comp':
            nname[0] += 1
            arr = W.values(op[1], d.shape, special=True)
            cid = d.add_component(arr, 's%d' % nname[0])
            m.raw[id(cid)] = arr
        elif k in ('add_binary', 'add_parsed'):
            shared[1] = False
            tree, expr, text, refs = bind(op[1], k == 'add_parsed')
            if tree[0] in ('const', 'ref'):
                continue
            nname[0] += 1
            label = ('b%d' if k == 'add_binary' else 'p%d') % nname[0]
            if k == 'add_binary':
                d.add_component_link(expr, label)
                cid = d.id[label]
                m.links[id(cid)] = expr
                if shared[1]:
                    shared[0].add(id(cid))
                res.probe('binary_tree')
            else:
                cid = ComponentID(label, parent=d)
                if len(op) > 2 and op[2]:
                    # the expression is offered more attributes than it uses (a dialog passes all of the dataset's)
                    refs = dict(refs)
                    for n_, c_ in enumerate(c for c in candidates() if d.get_kind(c) == 'numerical'):
                        refs.setdefault('unused%d' % n_, c_)
                    res.probe('parsed_offered_unused_attributes')
                d.add_component_link(ParsedComponentLink(cid, ParsedCommand(text, refs)))
                res.probe('parsed_text')
            m.trees[id(cid)] = tree
            m.kinds[id(cid)] = k
            m.age[id(cid)] = 0
            note_inputs(d, m, tree, res)
        elif k == 'add_fn':
            cs = [c for c in candidates() if d.get_kind(c) == 'numerical']
            a, b = cs[op[2] % len(cs)], cs[op[3] % len(cs)]
            nname[0] += 1
            cid = ComponentID('f%d' % nname[0], parent=d)
            if op[1] in LF.ONE:
                d.add_component_link(ComponentLink([a], cid, using=LF.ONE[op[1]][0]))
                tree = ['fn', op[1], [['ref', a]]]
                res.probe('user_function')
            else:
                d.add_component_link(ComponentLink([a, b], cid, using=LF.TWO[op[1]]))
                tree = ['fn', op[1], [['ref', a], ['ref', b]]]
                res.probe('two_input_function')
            m.trees[id(cid)] = tree
            m.links[id(cid)] = d.get_component(cid).link
            m.kinds[id(cid)] = 'add_fn'
            m.age[id(cid)] = 0
            note_inputs(d, m, tree, res)
        elif k == 'repoint':
            # an expression is re-pointed from one input to another through the public ComponentLink.replace_ids
            cands = [c for c in d.derived_components if id(c) in m.links and id(c) in m.trees and id(c) not in m.orphan
                     and id(c) not in shared[0] and m.kinds.get(id(c)) in ('add_binary', 'add_fn')]
            if not cands:
                continue
            c = cands[op[1] % len(cands)]
            ins = []
            for r in m.refs(m.trees[id(c)], []):
                if not any(r is x for x in ins):
                    ins.append(r)
            news = [x for x in candidates() if d.get_kind(x) == 'numerical' and x is not c and not m.depends_on(x, c)
                    and not any(x is r for r in ins)]
            if not ins or not news:
                continue
            old, new = ins[op[2] % len(ins)], news[op[3] % len(news)]
            m.links[id(c)].replace_ids(old, new)

            def subst(t):
                if t[0] == 'ref':
                    return ['ref', new] if t[1] is old else t
                if t[0] in OPS:
                    return [t[0], subst(t[1]), subst(t[2])]
                if t[0] == 'fn':
                    return ['fn', t[1], [subst(x) for x in t[2]]]
                return t
            m.trees[id(c)] = subst(m.trees[id(c)])
            res.probe('expression_repointed')
        elif k == 'remove':
            cs = [c for c in d.main_components + d.derived_components]
            if len(d.main_components) <= 1 and not d.derived_components:
                continue
            c = cs[op[1] % len(cs)]
            if c in d.main_components and len(d.main_components) == 1:
                continue
            before = list(d.components)
            gone = [x for x in before if x is c or m.depends_on(x, c)]
            d.remove_component(c)
            after = list(d.components)
            exp = [x for x in before if not any(x is g for g in gone)]
            res.nchecks += 1
            if len(gone) >= 3:
                res.probe('cascade_removed_ge_2')
            if len(after) != len(exp) or any(a is not b for a, b in zip(after, exp)):
                raise Violation('C14/removal-closure-wrong/%s' % ('derived' if id(c) in m.trees else 'stored'),
                                'removed %s: expected survivors %s, got %s' % (c.label, [x.label for x in exp], [x.label for x in after]))
            for g in gone:
                m.trees.pop(id(g), None)
                m.raw.pop(id(g), None)
        elif k == 'update_id':
            cs = [c for c in d.main_components if id(c) not in m.orphan]
            if not cs:
                continue
            old = cs[op[1] % len(cs)]
            nname[0] += 1
            new = ComponentID('u%d' % nname[0])
            before = list(d.components)
            d.update_id(old, new)
            after = list(d.components)
            exp = [new if x is old else x for x in before]
            res.nchecks += 1
            if len(after) != len(exp) or any(a is not b for a, b in zip(after, exp)):
                raise Violation('C14/update-id-order', 'expected %s got %s' % ([x.label for x in exp], [x.label for x in after]))
            m.raw[id(new)] = m.raw.pop(id(old))
            if not same(d[new], m.raw[id(new)]):
                raise Violation('C14/update-id-values', 'values changed when %s was re-identified' % old.label)
            # "replacing an attribute's identifier keeps all values": attributes defined on the old identifier follow it
            # (until repair 22d4f13 they became unreadable - finding F-C17-4 - and left the checked set here)
            def subst(t):
                if t[0] == 'ref':
                    if t[1] is old:
                        t[1] = new
                elif t[0] in OPS:
                    subst(t[1])
                    subst(t[2])
                elif t[0] == 'fn':
                    for x in t[2]:
                        subst(x)
            for t in m.trees.values():
                subst(t)
            m.keep.append(old)
            since['update_id'] = True
        elif k == 'upd':
            cs = [c for c in d.main_components if id(c) in m.raw]
            c = cs[op[1] % len(cs)]
            arr = W.values(op[2], d.shape, special=True)
            d.update_components({c: arr})
            m.raw[id(c)] = arr
            since['upd'] = True
        elif k == 'reorder':
            cs = list(d.components)
            rs = np.random.RandomState(op[1])
            perm = list(rs.permutation(len(cs)))
            new = [cs[i] for i in perm]
            d.reorder_components(new)
            got = list(d.components)
            if any(a is not b for a, b in zip(got, new)):
                raise Violation('C14/reorder-order', 'expected %s got %s' % ([x.label for x in new], [x.label for x in got]))
            since['reorder'] = True
        elif k == 'compare':
            v = VIEWS[op[1] % len(VIEWS)]
            if v is None:
                view = None
            elif v == 'int0':
                view = (0,) if d.shape[0] > 0 else None
            else:
                view = tuple(slice(a, a + b, c) for a, b, c in v)[:d.ndim]
            for c in d.main_components:
                if id(c) in m.raw and not same(d[c], m.raw[id(c)]):
                    raise Violation('C14/stored-values-changed', c.label)
            for c in list(d.derived_components):
                if id(c) in m.orphan or id(c) not in m.trees:
                    continue
                tree = m.trees[id(c)]
                if any(id(r) in m.orphan for r in m.refs(tree, [])):
                    continue
                mags = []
                m.unstable = []
                exp = m.evaluate(d, tree, view, mags)
                got = d[c, view] if view is not None else d[c]
                tshape = np.empty(d.shape)[view].shape if view is not None else d.shape
                full = np.broadcast_to(np.asarray(exp, dtype=float), tshape)
                scale = np.zeros(tshape)
                for mg in mags:
                    scale = np.maximum(scale, np.broadcast_to(mg, tshape))
                skip = np.zeros(tshape, dtype=bool)
                for u in m.unstable:
                    skip |= np.broadcast_to(u, tshape)
                if skip.any():
                    res.probe('ill_conditioned_elements_skipped')
                    got = np.where(skip, full, np.asarray(got, dtype=float))
                res.nchecks += 1
                res.nontrivial = True
                if view is not None:
                    res.probe('view_compare')
                for kk, p in (('upd', 'compare_after_update'), ('reorder', 'compare_after_reorder'), ('update_id', 'compare_after_update_id')):
                    if since[kk]:
                        res.probe(p)
                if np.any(np.isnan(full)):
                    res.probe('nan_propagated')
                m.age[id(c)] = m.age.get(id(c), 0) + 1
                res.fp(m.kinds[id(c)], tree_shape(tree), sorted(set(input_kind(d, m, r) for r in m.refs(tree, []))),
                       'none' if view is None else str(v)[:12], d.ndim, min(m.age[id(c)], 3))
                if not same(got, full, scale):
                    raise Violation('C14/derived-value-wrong/%s' % m.kinds[id(c)],
                                    '%s (%s) view %s: glue %s, expression %s' % (c.label, tree_text(tree), v,
                                                                                  np.asarray(got).reshape(-1)[:6], np.asarray(full).reshape(-1)[:6]))
            # numpy pow is not bit-reproducible across array alignments, so the event log keeps 10 significant digits
            res.log.append(['cmp', [W.arr_digest(np.array(['%.10g' % x for x in np.asarray(d[c], dtype=float).reshape(-1)]))
                                    for c in d.derived_components if id(c) not in m.orphan]])


def input_kind(d, m, cid):
    if id(cid) in m.raw:
        return 'stored'
    if id(cid) in m.trees:
        return 'derived'
    if cid in d.pixel_component_ids:
        return 'pixel'
    return 'world'


def note_inputs(d, m, tree, res):
    for r in m.refs(tree, []):
        kind = input_kind(d, m, r)
        if kind == 'derived':
            res.probe('derived_of_derived')
        elif kind == 'pixel':
            res.probe('pixel_input')
        elif kind == 'world':
            res.probe('world_input')


def tree_text(t):
    if t[0] == 'const':
        return repr(t[1])
    if t[0] == 'ref':
        return t[1].label
    if t[0] == 'fn':
        return '%s(%s)' % (t[1], ', '.join(tree_text(x) for x in t[2]))
    return '(%s %s %s)' % (tree_text(t[1]), t[0], tree_text(t[2]))
