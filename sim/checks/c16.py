"""C16 - a fixed-resolution buffer equals nearest-pixel resampling through the links; the cache never changes a result.

Engine E2, oracles (A) + (B).  Datasets of different shapes whose pixel axes are linked by per-axis
affine maps with integer scale / offset and axis permutations; request *sequences* that share a cache id
and vary bounds (scalar and ranged, partly or wholly outside), target attribute, selection, source and
reference dataset.  (A) an independent nearest-pixel resampler written with explicit index arithmetic;
(B) for unchanged data the result with a cache id equals the result without one, whatever was requested
before under that id.  Data, links and selections are frozen after set-up (the statement says "for
unchanged data").
"""
import operator

import numpy as np

from sim.core import Violation
from sim import world as W

PROP = 'C16'
TIERS = {
    'quick': {'runs': 4800, 'blocks': 16, 'max_ops': 16},
    'thorough': {'runs': 96000, 'blocks': 64, 'max_ops': 40},
}
RULE = ('Each run: a reference dataset (2-3-d) and 1-2 source datasets (1-3-d) whose pixel axes are linked to reference axes by maps '
        'x_src = a * x_ref + b (a in {1, 2, -1}, b in -2..3; axis permutations; possibly an unlinked source axis), value attributes (float, '
        'integer) and selections (inequality on a value or pixel attribute, mask, slice, composite); then a seeded sequence of '
        'compute_fixed_resolution_buffer requests sharing cache ids {A, B} or using none, varying source, reference, bounds (scalar / ranged; '
        'inside, partly outside, wholly outside; fractional steps), attribute or selection, broadcast flag. Non-trivial: >=1 request was '
        'compared against the model with a source different from the reference. distinct_nontrivial counts distinct (ndim pair, bounds-kind '
        'tuple, what, cache id used, #previous requests under that id, same-as-previous-except) fingerprints.')
EXPLANATION = ('Model: each sample position p (np.linspace of the bounds, in the reference pixel frame) is mapped through the affine pixel maps to '
               'source coordinates; the nearest source pixel is taken (a coordinate exactly half-way between two pixels accepts either neighbour); '
               'outside the source -> NaN / False; scalar bounds drop their dimension. Cache: for every request made with a cache id the same '
               'request is also made without one and the arrays must be equal (NaN-aware), and both must agree with the model.')
REAL = ['glue.core.fixed_resolution_buffer (compute_fixed_resolution_buffer, translate_pixel, ARRAY_CACHE, PIXEL_CACHE)', 'glue.core.link_manager',
        'glue.core.data', 'glue.core.subset']
STUB = ['affine link functions (closures created by the harness)', 'uuid and identity-hash streams']
ASSUMPTIONS = ['data, links and selections do not change after set-up (the statement quantifies over unchanged data)',
               'image planes are read through ImageLayerState / ImageSubsetLayerState.get_sliced_data on a stand-alone ImageViewerState (no matplotlib viewer)', 'sampling, not proof']
PROBES = ['cache_hit_same_request', 'cache_after_other_bounds', 'cache_after_other_attribute', 'cache_after_other_dataset', 'scalar_bound_changed',
          'wholly_outside', 'partly_outside', 'halfway_sample', 'mask_request', 'broadcast_dimension', 'permuted_axes', 'negative_scale',
          'unlinked_axis_incompatible', 'same_dataset_request', 'image_plane_read', 'image_slice_changed',
          'reference_with_sheared_world_coordinates', 'linked_through_world_axis', 'temporary_selection_requested',
          'link_undefined_for_some_positions', 'dask_backed_source']

WEIGHTS = {'req': 10, 'repeat': 3}


def generate(rng, cfg, guards):
    n = rng.randrange(3, cfg['max_ops'] + 1)
    ops = []
    rshape = rng.pick([(4, 5), (3, 4), (3, 4, 5), (2, 3, 4), (5, 3)])
    ops.append(['ref', list(rshape), rng.randrange(10000)])
    world = rng.chance(0.3)
    if world:
        # the reference dataset has non-separable affine world coordinates (integer shear + offset); sources may be linked
        # through its world axes instead of its pixel axes
        kk = rng.randrange(len(rshape))
        ii = rng.pick([i for i in range(len(rshape)) if i != kk])
        ops.append(['refcoords', kk, ii, rng.pick([1, -1, 2]), [rng.pick([0, 0, 1, -1]) for _ in rshape]])
    for _ in range(rng.randrange(1, 3)):
        sshape = rng.pick([(4,), (6,), (3, 4), (5, 3), (2, 3), (2, 3, 4), (3, 2, 2)])
        maps = []
        for j in range(len(sshape)):
            if rng.chance(0.07):
                maps.append(None)
            else:
                maps.append([rng.randrange(len(rshape)), rng.pick([1, 1, 1, 2, -1]), rng.randrange(-2, 4), world and rng.chance(0.7),
                             # a transform that is undefined (NaN) left of some reference position, like sqrt / log scalings
                             rng.pick([None, None, None, None, 1, 2])])
        ops.append(['src', list(sshape), rng.randrange(10000), maps, rng.chance(0.2)])      # last: stored as a dask array
    for _ in range(rng.randrange(1, 4)):
        ops.append(['state', rng.pick(['ineq', 'ineq', 'pix', 'mask', 'slice', 'and']), rng.randrange(8), rng.randrange(-2, 9) + 0.5, rng.randrange(1000)])
    if rng.chance(0.35):
        ops.append(['img_new'])
    while len(ops) < n:
        if any(o[0] == 'img_new' for o in ops) and rng.chance(0.4):
            k = rng.pick(['img_read', 'img_read', 'img_read', 'img_slice', 'img_slice', 'img_axes', 'img_attr'])
            ops.append([k, rng.randrange(8), rng.randrange(8), rng.randrange(8)])
            continue
        if rng.chance(0.25) and any(o[0] == 'req' for o in ops):
            ops.append(['repeat', rng.randrange(8), rng.pick([None, 'A', 'A', 'B']), rng.pick(['same', 'src', 'src', 'what', 'nobroadcast'])])
            continue
        bounds = []
        for _ in range(3):
            kind = rng.pick(['range', 'range', 'scalar', 'range_out', 'range_frac'])
            if kind == 'scalar':
                bounds.append(rng.randrange(-1, 6))
            elif kind == 'range':
                lo = rng.randrange(-1, 3)
                nst = rng.randrange(1, 6)
                bounds.append([lo, lo + nst - 1, nst])
            elif kind == 'range_out':
                lo = rng.pick([-6, 7])
                bounds.append([lo, lo + 2, 3])
            else:
                lo = rng.randrange(-1, 3)
                bounds.append([lo, lo + rng.randrange(1, 4), rng.randrange(2, 6)])
        if rng.chance(0.12):
            # what an image layer does when its selection is replaced: the same plane under the same cache id for a selection
            # object that did not exist before, the previous one having been dropped
            hsrc, cid_ = rng.randrange(4), rng.pick(['A', 'A', 'B'])
            for _ in range(rng.randrange(2, 4)):
                ops.append(['req', hsrc, 1, bounds, 'tmp', rng.randrange(-2, 9) + 0.5, cid_, True])
            continue
        ops.append(['req', rng.randrange(4), rng.randrange(4), bounds, rng.pick(['cid', 'cid', 'mask']), rng.randrange(8),
                    rng.pick([None, 'A', 'A', 'B']), rng.chance(0.85)])
    return {'knobs': {'guards': list(guards), 'prop': PROP}, 'ops': ops}


def unit(j, n):
    """Source coordinate = reference pixel coordinate j, as a linear form (coefficients over the reference axes, constant)."""
    return (tuple(1.0 if i == j else 0.0 for i in range(n)), 0.0)


def used_axes(ms):
    return set(i for m in ms if m is not None for i, c in enumerate(m[0]) if c != 0)


def affine(a, b):
    def f(x):
        return a * x + b
    return f


def affine_nan(a, b, cut):
    def f(x):
        x = np.asarray(x, dtype=float)
        return np.where(x < cut, np.nan, a * x + b)
    return f


def affine_inv(a, b):
    def g(y):
        return (y - b) / a
    return g


def same(a, b):
    a, b = np.asarray(a), np.asarray(b)
    if a.shape != b.shape:
        return False
    if a.dtype.kind == 'b' or b.dtype.kind == 'b':
        return bool(np.array_equal(a.astype(bool), b.astype(bool)))
    a, b = a.astype(float), b.astype(float)
    return bool(np.all((a == b) | (np.isnan(a) & np.isnan(b))))


def execute(case, res):
    from glue.core.data import Data
    from glue.core.component_link import ComponentLink
    from glue.core.fixed_resolution_buffer import compute_fixed_resolution_buffer
    from glue.core import subset as S
    from glue.core.exceptions import IncompatibleAttribute, IncompatibleDataException
    w = W.World(case['knobs'], res, None)
    dc = w.dc
    datasets = []       # [ref, src1, src2]
    maps = {}           # id(src) -> list of (ref axis, a, b) or None per source axis
    states = []         # (glue state, model function(dataset) -> full mask or None if not evaluable)
    history = {}        # cache id -> list of request descriptors
    image = {}
    reqs = []
    refworld = {}
    dead_ids = set()
    for op in case['ops']:
        k = op[0]
        res.nops += 1
        if k == 'ref':
            d = Data(label='ref')
            d.add_component(W.values(op[2], tuple(op[1])), 'a')
            d.add_component(W.values(op[2] + 1, tuple(op[1]), 'intdtype'), 'b')
            datasets.append(d)
            dc.append(d)
            maps[id(d)] = [unit(j, d.ndim) for j in range(d.ndim)]
        elif k == 'refcoords':
            from glue.core.coordinates import AffineCoordinates
            ref = datasets[0]
            n = ref.ndim
            A = np.eye(n)
            A[op[1] % n, op[2] % n] = op[3]
            t = np.array(op[4][:n], dtype=float)
            # glue wants the augmented matrix in (x, y, ...) order, the reverse of the numpy axis order
            M = np.eye(n + 1)
            M[:n, :n] = A[::-1, ::-1]
            M[:n, n] = t[::-1]
            ref.coords = AffineCoordinates(M)
            refworld.update(A=A, t=t)
            res.probe('reference_with_sheared_world_coordinates')
        elif k == 'src':
            if not datasets:
                continue
            ref = datasets[0]
            d = Data(label='src%d' % len(datasets))
            if len(op) > 4 and op[4]:
                import dask.array as da
                from glue.core.component import DaskComponent
                d.add_component(DaskComponent(da.from_array(W.values(op[2], tuple(op[1]), special=True), chunks=2)), 'a')
                res.probe('dask_backed_source')
            else:
                d.add_component(W.values(op[2], tuple(op[1]), special=True), 'a')
            d.add_component(W.values(op[2] + 1, tuple(op[1]), 'intdtype'), 'b')
            datasets.append(d)
            dc.append(d)
            ms = []
            for j, m in enumerate(op[3]):
                if m is None:
                    ms.append(None)
                    continue
                rax, a, b = m[0] % ref.ndim, m[1], m[2]
                if len(m) > 3 and m[3] and refworld:
                    # linked through world axis rax of the reference: x_src = a * world_rax(p) + b
                    ms.append((tuple(a * refworld['A'][rax]), a * refworld['t'][rax] + b))
                    dc.add_link(ComponentLink([ref.world_component_ids[rax]], d.pixel_component_ids[j], using=affine(a, b), inverse=affine_inv(a, b)))
                    res.probe('linked_through_world_axis')
                else:
                    ms.append((tuple(a * np.eye(ref.ndim)[rax]), b))
                    cut = m[4] if len(m) > 4 else None
                    if cut is not None:
                        maps.setdefault(('nan', id(d)), {})[j] = (rax, cut)
                        res.probe('link_undefined_for_some_positions')
                    dc.add_link(ComponentLink([ref.pixel_component_ids[rax]], d.pixel_component_ids[j],
                                              using=affine(a, b) if cut is None else affine_nan(a, b, cut), inverse=affine_inv(a, b)))
                if rax != j:
                    res.probe('permuted_axes')
                if a < 0:
                    res.probe('negative_scale')
            maps[id(d)] = ms
        elif k == 'state':
            if len(datasets) < 1:
                continue
            d = datasets[op[2] % len(datasets)]
            thr = op[3]
            if op[1] == 'ineq':
                st = S.InequalitySubsetState(d.id['a'], thr, operator.gt)
                fn = (lambda dd, d=d, thr=thr: (np.asarray(d['a']) > thr) if dd is d else None)
            elif op[1] == 'pix':
                st = S.InequalitySubsetState(d.pixel_component_ids[0], thr % 3, operator.ge)
                fn = (lambda dd, d=d, thr=thr: (np.asarray(d[d.pixel_component_ids[0]]) >= thr % 3) if dd is d else None)
            elif op[1] == 'mask':
                m = np.random.RandomState(op[4]).randint(0, 2, size=d.shape).astype(bool)
                st = S.MaskSubsetState(m, d.pixel_component_ids)
                fn = (lambda dd, d=d, m=m: m if dd is d else None)
            elif op[1] == 'slice':
                sl = [slice(0, 2)] + [slice(None)] * (d.ndim - 1)
                st = S.SliceSubsetState(d, sl)
                mm = np.zeros(d.shape, dtype=bool)
                mm[tuple(sl)] = True
                fn = (lambda dd, d=d, mm=mm: mm if dd is d else None)
            else:
                st = S.InequalitySubsetState(d.id['a'], thr, operator.gt) & S.InequalitySubsetState(d.id['b'], 3, operator.lt)
                fn = (lambda dd, d=d, thr=thr: ((np.asarray(d['a']) > thr) & (np.asarray(d['b']) < 3)) if dd is d else None)
            states.append((st, fn, d))
        elif k == 'img_new':
            if len(datasets) < 2 or image:
                continue
            from glue.viewers.image.state import ImageViewerState, ImageLayerState, ImageSubsetLayerState
            ref = datasets[0]
            vs = ImageViewerState()
            layers = []
            for d in datasets:
                ls = ImageLayerState(viewer_state=vs, layer=d)
                vs.layers.append(ls)
                layers.append((ls, d, None))
            for st, fn, owner in states[:2]:
                g = dc.new_subset_group(subset_state=st)
                sub = [x for x in owner.subsets if x.group is g][0]
                ls = ImageSubsetLayerState(viewer_state=vs, layer=sub)
                vs.layers.append(ls)
                layers.append((ls, owner, fn))
            if vs.reference_data is not ref:
                vs.reference_data = ref
            image.update(vs=vs, layers=layers)
        elif k in ('img_slice', 'img_axes', 'img_attr', 'img_read'):
            if not image:
                continue
            vs = image['vs']
            ref = vs.reference_data
            if k == 'img_slice':
                sl = list(vs.slices)
                ax = op[1] % ref.ndim
                sl[ax] = op[2] % ref.shape[ax]
                vs.slices = tuple(sl)
                res.probe('image_slice_changed')
            elif k == 'img_axes':
                pix = ref.pixel_component_ids
                vs.x_att = pix[op[1] % ref.ndim]
                if op[2] % 2:
                    vs.y_att = pix[op[3] % ref.ndim]
            elif k == 'img_attr':
                ls, d, fn = image['layers'][op[1] % len(image['layers'])]
                if fn is None:
                    ls.attribute = d.id['a'] if op[2] % 2 == 0 else d.id['b']
            else:
                ls, d, fn = image['layers'][op[1] % len(image['layers'])]
                xa, ya = vs.x_att.axis, vs.y_att.axis
                bounds = []
                for i in range(ref.ndim):
                    if i in (xa, ya):
                        bounds.append((0, ref.shape[i] - 1, ref.shape[i]))
                    else:
                        bounds.append(vs.slices[i])
                if fn is None:
                    full = np.asarray(d[ls.attribute], dtype=float)
                    invalid_value = np.nan
                else:
                    full = fn(d)
                    invalid_value = False
                exp = model(d, ref, maps, bounds, full, invalid_value, res)
                used = used_axes(maps[id(d)] if d is not ref else [unit(j, ref.ndim) for j in range(ref.ndim)])
                try:
                    got = ls.get_sliced_data()
                    st_ = 'ok'
                except IncompatibleAttribute:
                    st_ = 'incompatible'
                except IncompatibleDataException:
                    st_ = 'nobroadcast'
                res.nchecks += 1
                res.probe('image_plane_read')
                res.fp('img', d.ndim, ref.ndim, xa, ya, fn is None)
                if isinstance(exp, str):
                    if st_ == 'ok':
                        raise Violation('C16/image-plane-evaluated-without-links', 'layer %s' % d.label)
                    continue
                if not ({xa, ya} <= used):
                    # an axis of the plane does not reach the layer's dataset: the viewer asks for no broadcasting
                    if st_ == 'ok' and d is not ref and not refworld:
                        raise Violation('C16/image-plane-broadcast-not-refused', 'layer %s axes %s/%s used %s' % (d.label, xa, ya, sorted(used)))
                    if st_ != 'ok' or d is ref:
                        continue
                    # coupled world axes: glue takes every pixel axis that shares a world axis as used (an over-approximation
                    # the statement allows); what it returns is then compared like any other plane
                if st_ != 'ok':
                    raise Violation('C16/image-plane-not-available/%s' % st_, 'layer %s axes x=%d y=%d slices %s' % (d.label, xa, ya, vs.slices))
                if ya > xa:
                    tr = np.empty(exp.shape[::-1], dtype=object)
                    for idx in np.ndindex(*exp.shape):
                        tr[idx[::-1]] = exp[idx]
                    exp = tr
                res.nontrivial = True
                if np.asarray(got).shape != exp.shape or not matches(got, exp):
                    raise Violation('C16/image-plane-differs/%s' % ('values' if fn is None else 'mask'),
                                    'layer %s ref %s maps %s axes x=%d y=%d slices %s: glue %s model %s' % (
                                        d.shape, ref.shape, maps[id(d)], xa, ya, vs.slices, np.asarray(got).tolist(), exp.tolist()))
        elif k in ('req', 'repeat'):
            if k == 'repeat':
                if not reqs:
                    continue
                base = reqs[op[1] % len(reqs)]
                alter = op[3] if len(op) > 3 else 'same'
                new = ['req'] + base[1:6] + [op[2], base[7]]
                if base[4] == 'tmp':
                    alter = 'same'
                if alter == 'src':
                    new[1] = base[1] + 1            # the same bounds asked of another dataset under the same cache id
                elif alter == 'what':
                    new[5] = base[5] + 1
                elif alter == 'nobroadcast':
                    new[7] = False
                op = new
            if len(datasets) < 1:
                continue
            reqs.append(list(op))
            tmp_id = None
            src = datasets[op[1] % len(datasets)]
            ref = datasets[0] if op[2] % 4 else src          # mostly the reference frame, sometimes the source's own frame
            bounds = [tuple(b) if isinstance(b, list) else b for b in op[3][:ref.ndim]]
            what, cache_id, broadcast = op[4], op[6], op[7]
            kwargs = {}
            if what == 'cid':
                cid = src.id['a'] if op[5] % 2 == 0 else src.id['b']
                kwargs['target_cid'] = cid
                full = np.asarray(src[cid], dtype=float)
                invalid_value = np.nan
                desc_what = ('cid', cid.label)
            elif what == 'tmp':
                # a selection object made for this request and dropped after it; the allocator is nudged to hand out the
                # address of a selection that died earlier (possible only if nothing keeps that one alive)
                thr = op[5]
                hold = []
                for _ in range(64):
                    st = S.InequalitySubsetState(src.id['a'], thr, operator.gt)
                    if not dead_ids or id(st) in dead_ids:
                        break
                    hold.append(st)
                del hold
                kwargs['subset_state'] = st
                full = np.asarray(src['a']) > thr
                invalid_value = False
                desc_what = ('tmp', thr)
                tmp_id = id(st)
                st = None
                res.probe('temporary_selection_requested')
            else:
                mine = [x for x in states if x[2] is src]     # selections defined on the source dataset itself
                if not mine:
                    continue
                st, fn, _ = mine[op[5] % len(mine)]
                kwargs['subset_state'] = st
                full = fn(src)
                invalid_value = False
                desc_what = ('mask', id(st))
                res.probe('mask_request')
            if src is ref:
                res.probe('same_dataset_request')
            exp = model(src, ref, maps, bounds, full, invalid_value, res) if full is not None else 'incompatible'

            def call(cid_):
                try:
                    return 'ok', compute_fixed_resolution_buffer(src, bounds, target_data=ref, broadcast=broadcast, cache_id=cid_, **kwargs)
                except IncompatibleAttribute:
                    return 'incompatible', None
                except IncompatibleDataException:
                    return 'nobroadcast', None
                except Exception as e:
                    return 'crash:%s' % type(e).__name__, str(e)[:200]

            st0, plain = call(None)
            if tmp_id is not None and cache_id is None:
                kwargs.clear()
                dead_ids.add(tmp_id)
            if st0.startswith('crash'):
                raise Violation('C16/%s/%s' % (st0.replace(':', '/'), what), 'a valid request %s raised: %s' % (bounds, plain))
            desc = (id(src), id(ref), repr(bounds), desc_what, broadcast)
            if cache_id is not None:
                prev = history.setdefault(cache_id, [])
                if prev:
                    last = prev[-1]
                    if last == desc:
                        res.probe('cache_hit_same_request')
                    elif last[0] != desc[0] or last[1] != desc[1]:
                        res.probe('cache_after_other_dataset')
                    elif last[3] != desc[3]:
                        res.probe('cache_after_other_attribute')
                    else:
                        res.probe('cache_after_other_bounds')
                        lb = eval(last[2])
                        if any(np.isscalar(x) and np.isscalar(y) and x != y for x, y in zip(lb, bounds)):
                            res.probe('scalar_bound_changed')
                st1, cached = call(cache_id)
                if tmp_id is not None:
                    kwargs.clear()          # the caller drops its selection
                    dead_ids.add(tmp_id)
                if st1.startswith('crash'):
                    raise Violation('C16/%s-with-cache/%s' % (st1.replace(':', '/'), what), 'request %s with cache id %s raised: %s' % (bounds, cache_id, cached))
                res.nchecks += 1
                if st1 != st0 or (st0 == 'ok' and not same(cached, plain)):
                    raise Violation('C16/cache-changes-result/%s' % what,
                                    'request %s after %d earlier request(s) under cache id %s: with cache %s, without %s'
                                    % (desc[2:], len(prev), cache_id, np.asarray(cached).tolist() if st1 == 'ok' else st1,
                                       np.asarray(plain).tolist() if st0 == 'ok' else st0))
                prev.append(desc)
            res.log.append(['req', st0, W.arr_digest(plain) if st0 == 'ok' else None])
            # ---- against the model
            if st0 == 'nobroadcast':
                continue
            if isinstance(exp, str):
                if st0 != 'incompatible':
                    raise Violation('C16/evaluated-without-links/%s' % what, 'no pixel link / selection not defined on the source, but a buffer was returned')
                res.probe('unlinked_axis_incompatible')
                continue
            if st0 != 'ok':
                raise Violation('C16/incompatible-despite-links/%s' % what, 'request %s' % (desc[2:],))
            got = np.asarray(plain)
            res.nchecks += 1
            if src is not ref:
                res.nontrivial = True
            bk = tuple('s' if np.isscalar(b) else 'r' for b in bounds)
            res.fp(src.ndim, ref.ndim, bk, what, cache_id, min(len(history.get(cache_id, [])), 4))
            if got.shape != exp.shape:
                raise Violation('C16/buffer-shape/%s' % what, 'bounds %s: shape %s, expected %s' % (bounds, got.shape, exp.shape))
            if not matches(got, exp):
                raise Violation('C16/buffer-differs-from-nearest-pixel/%s' % what,
                                'src %s ref %s maps %s bounds %s: glue %s, model %s' % (src.shape, ref.shape, maps[id(src)], bounds,
                                                                                       got.tolist(), exp.tolist()))


def model(src, ref, maps, bounds, full, invalid_value, res):
    """Nearest-pixel resampling by explicit index arithmetic.  Returns an object array holding, for every sample, the list of
    acceptable values (more than one only where a source coordinate is exactly half-way between two pixels), or 'incompatible'."""
    import itertools
    if src is ref:
        ms = [unit(j, src.ndim) for j in range(src.ndim)]
    else:
        ms = maps[id(src)]
        if any(m is None for m in ms):
            return 'incompatible'
    axes = [np.linspace(*b) if isinstance(b, tuple) else np.array([float(b)]) for b in bounds]
    shape = tuple(len(a) for a in axes)
    arr = np.empty(shape, dtype=object)
    outside = inside = 0
    for idx in np.ndindex(*shape):
        p = [axes[i][idx[i]] for i in range(len(axes))]
        options = []
        nan = maps.get(('nan', id(src)), {}) if src is not ref else {}
        for j, (coeffs, const) in enumerate(ms):
            if j in nan and p[nan[j][0]] < nan[j][1]:
                options.append([-10 ** 6])        # the linked position is undefined: outside
                continue
            x = float(sum(c * p[i] for i, c in enumerate(coeffs) if c != 0) + const)
            fl = np.floor(x)
            if x - fl == 0.5:
                res.probe('halfway_sample')
                options.append([int(fl), int(fl) + 1])
            else:
                options.append([int(np.floor(x + 0.5))])
        vals = []
        for combo in itertools.product(*options):
            if any(r < 0 or r >= n for r, n in zip(combo, src.shape)):
                vals.append(invalid_value)
            else:
                vals.append(full[tuple(combo)])
        arr[idx] = vals
        if all((v is invalid_value) or (isinstance(v, float) and np.isnan(v)) for v in vals) and invalid_value is not False:
            outside += 1
        elif invalid_value is False and not any(vals):
            outside += 1
        else:
            inside += 1
    if inside == 0:
        res.probe('wholly_outside')
    elif outside:
        res.probe('partly_outside')
    used = used_axes(ms)
    if any(i not in used and isinstance(b, tuple) for i, b in enumerate(bounds)):
        res.probe('broadcast_dimension')
    sl = tuple(slice(None) if isinstance(b, tuple) else 0 for b in bounds)
    out = arr[sl]
    if not isinstance(out, np.ndarray):     # every bound is a scalar: a single sample
        box = np.empty((), dtype=object)
        box[()] = out
        out = box
    return out


def matches(got, exp):
    got = np.asarray(got)
    if got.shape != exp.shape:
        return False
    for idx in np.ndindex(*got.shape):
        g = got[idx]
        ok = False
        for v in exp[idx]:
            if isinstance(v, (bool, np.bool_)) or isinstance(g, (bool, np.bool_)):
                ok = ok or bool(g) == bool(v)
            else:
                ok = ok or float(g) == float(v) or (np.isnan(float(g)) and np.isnan(float(v)))
        if not ok:
            return False
    return True
