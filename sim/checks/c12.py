"""C12 - every serialisation protocol version ever registered still loads what it saved (narrow claim).

Decided as a *version-skew restart*: the restart operation of C02, but the dying process is assumed to be an
older glue - the records of one object type (Data or DataCollection) are written with the saver registered for
an older protocol version (the savers and loaders are the repository's own; the harness only overrides the
version choice).  Oracle: C02's snapshot equality restricted to what that version's saver records.
The registry-shape clauses (versions consecutive from 1, never overwritten, newest used by default) are
asserted on the live registries at the start of every run.  The rename-table clauses of C12 are static facts
with no history or fault in them and are outside this technique (see DESIGN.md).
"""
import gc
import os
import shutil
import tempfile
import warnings

import numpy as np

from sim.core import Violation
from sim import world as W
from sim import seams
from sim.checks import c02

PROP = 'C12'
TIERS = {
    'quick': {'runs': 2400, 'blocks': 16, 'max_ops': 18},
    'thorough': {'runs': 48000, 'blocks': 64, 'max_ops': 40},
}
RULE = ('Each run is a C02-style session history in which every restart writes the records of one type with an older registered protocol: '
        'Data with version 1..5 (DataCollection newest) or DataCollection with version 1..4 (Data newest). The generator avoids content '
        'that the chosen old format cannot represent (v1 collection: no subset groups; Data < 4: no key joins; Data < 4: no element '
        'selections bound to a dataset uuid). Non-trivial: >=1 skewed restart compared a session with >=1 dataset. distinct_nontrivial counts '
        'distinct (type, version, state-class multiset, link-kind multiset, #datasets) fingerprints.')
EXPLANATION = ('Snapshot equality as in C02 with the fields a version does not record removed on both sides: Data v1 style; Data <= 4 metadata; '
               'DataCollection <= 3 compares reachable attribute names only. Registry shape asserted per run: for every type in the saver and '
               'loader registries the versions are exactly 1..n, the default dispatch returns version n, and every saved version has a loader.')
REAL = ['glue.core.state savers and loaders of every registered version', 'GlueSerializer / GlueUnSerializer', 'real session files']
STUB = ['version choice of the writing process (a GlueSerializer subclass overriding _dispatch for one type)']
ASSUMPTIONS = ['only one type is skewed at a time; historical cross-type combinations are not reconstructed',
               'of the rename-table clauses only "chains end" and "the loader resolves an old name to what the end of its chain names" are checked (once per interpreter); importability of targets in other packages and "no capture of live class names" are static and not decided here',
               'sampling, not proof']
PROBES = ['data_v1', 'data_v2', 'data_v3', 'data_v4', 'dc_v1', 'dc_v2', 'dc_v3', 'skew_with_groups', 'skew_with_links', 'skew_with_joins',
          'registry_shape_checked', 'registered_types_found', 'rename_table_checked', 'registry_version_accepted', 'registry_version_refused']

WEIGHTS = dict(c02.WEIGHTS)
WEIGHTS.pop('new_file', None)


def generate(rng, cfg, guards):
    typ = rng.pick(['Data', 'Data', 'DataCollection'])
    ver = rng.randrange(1, 6) if typ == 'Data' else rng.randrange(1, 5)
    n = rng.randrange(4, cfg['max_ops'] + 1)
    w = {}
    for k, v in sorted(WEIGHTS.items()):
        if k in ('new', 'append', 'new_group', 'restart') or rng.chance(0.75):
            w[k] = v * rng.pick([0.5, 1, 2])
    kinds = [k for k in c02.LEAFKINDS if k not in ('flood',)]
    if typ == 'Data' and ver < 4:
        kinds = [k for k in kinds if k != 'elem']
    if typ == 'Data' and ver < 4:
        w.pop('join', None)      # v3 stored single-attribute joins; today's joins are tuples, which that format cannot hold
    if typ == 'DataCollection' and ver < 2:
        for k in ('new_group', 'set_state', 'set_label', 'set_style', 'remove_group'):
            w.pop(k, None)
    pairs = sorted(w.items())
    r8 = lambda: rng.randrange(8)
    ops = []
    for i in range(rng.randrange(1, 3)):
        ops.append(['new', rng.randrange(len(W.SHAPES)), rng.randrange(1, 3), rng.randrange(10000), rng.chance(0.5), rng.pick([0, 0, 1, 2]),
                    rng.chance(0.4), rng.chance(0.3)])
        ops.append(['append', i])
    from sim import linkfuncs as LF
    linkkinds = [(k, v) for k, v in c02.LINKKINDS if not (k == 'join' and typ == 'Data' and ver < 4)]
    if typ == 'DataCollection' and rng.chance(0.5):
        # old collection formats store the flattened links and sort them into internal / external ones when loading: make sure
        # there are two datasets and a two-input link, half of the time with one input in the output's own dataset
        if len([o for o in ops if o[0] == 'append']) < 2:
            ops.append(['new', rng.randrange(len(W.SHAPES)), rng.randrange(1, 3), rng.randrange(10000), False, 0, False, False])
            ops.append(['append', len([o for o in ops if o[0] == 'new']) - 1])
        ops.append(['add_link', 'multi', 0, r8(), 1, r8(), rng.pick(sorted(LF.ONE)), r8(), rng.pick(sorted(LF.TWO)), rng.chance(0.5)])
    while len(ops) < n:
        k = rng.wpick(pairs)
        if k == 'new':
            ops.append(['new', rng.randrange(len(W.SHAPES)), rng.randrange(1, 3), rng.randrange(10000), rng.chance(0.5), rng.pick([0, 0, 1, 2]),
                        rng.chance(0.4), rng.chance(0.3)])
        elif k in ('append', 'remove', 'remove_group', 'remove_link'):
            ops.append([k, r8()])
        elif k == 'add_derived':
            ops.append([k, r8(), r8(), rng.pick(sorted(LF.ONE))])
        elif k == 'add_link':
            ops.append([k, rng.wpick(linkkinds), r8(), r8(), r8(), r8(), rng.pick(sorted(LF.ONE)), r8(), rng.pick(sorted(LF.TWO)), rng.chance(0.4)])
        elif k == 'join':
            ops.append([k, r8(), r8(), r8(), r8()])
        elif k == 'new_group':
            ops.append([k, W.gen_recipe(rng, rng.pick([0, 1, 2]), kinds)])
        elif k == 'set_state':
            ops.append([k, r8(), W.gen_recipe(rng, rng.pick([0, 1, 2]), kinds)])
        elif k == 'set_label':
            ops.append([k, r8(), r8()])
        elif k in ('set_style', 'set_dstyle'):
            a = rng.pick(sorted(W.STYLE_VALUES))
            ops.append([k, r8(), a, r8()])
        elif k == 'set_meta':
            ops.append([k, r8(), rng.randrange(6), rng.randrange(5)])
        elif k == 'reorder':
            # every Data format stores the attributes in their present order, coordinate attributes included
            ops.append([k, r8(), rng.randrange(1000)])
        elif k == 'set_coords':
            ops.append([k, r8(), rng.pick([1, 2, 2, 0])])
        else:
            ops.append(['restart', True, True, None, 0, False])
    ops.append(['restart', True, True, None, 0, False])
    # a registration history for the versioned registry itself: (key, version) attempts in any order, also repeated
    # and out of order (a plug-in that forgets the version keyword registers version 1 again)
    reg = [[rng.randrange(2), rng.pick([1, 1, 2, 2, 3, 3, 4, 5, 'x'])] for _ in range(rng.randrange(4, 12))]
    return {'knobs': {'guards': list(guards), 'prop': PROP, 'skew': [typ, ver], 'reg': reg}, 'ops': ops}


simplify = c02.simplify


_CANDIDATES = []


def candidate_types():
    """Every class a saver / loader may be registered for, found without looking into the registry: the classes that glue's own
    modules (and the scientific libraries they name) expose, plus the builtins."""
    if _CANDIDATES:
        return _CANDIDATES
    import builtins
    import sys
    import glue.core.state      # noqa (registers everything)
    seen = set()
    for name, mod in list(sys.modules.items()):
        if mod is None or not (name == 'glue' or name.startswith('glue.') or name in ('numpy', 'builtins', 'matplotlib.colors', 'astropy.wcs', 'astropy.units')):
            continue
        for attr in list(vars(mod).values()):
            if isinstance(attr, type) and id(attr) not in seen:
                seen.add(id(attr))
                _CANDIDATES.append(attr)
    import types
    extra = list(vars(builtins).values()) + [types.FunctionType, types.BuiltinFunctionType, types.MethodType, types.LambdaType]
    for modname in ('shapely', 'shapely.lib', 'shapely.geometry', 'pandas', 'astropy.table', 'astropy.coordinates'):
        if modname in sys.modules:
            extra += list(vars(sys.modules[modname]).values())
    for attr in extra:
        if isinstance(attr, type) and id(attr) not in seen:
            seen.add(id(attr))
            _CANDIDATES.append(attr)
    return _CANDIDATES


def versions_of(reg, typ):
    """The versions registered for typ as the public interface shows them: (consecutive versions from 1, newest according to reg[typ],
    stray versions found below 1 or beyond a gap)."""
    if typ not in reg:
        return [], None, []
    try:
        newest = reg[typ][1]
    except (KeyError, ValueError):
        return [], None, []         # asked about before, never registered (the pinned registry remembers the question)
    have = []
    for v in range(0, (newest if isinstance(newest, int) else 0) + 4):
        try:
            reg.get_version(typ, v)
            have.append(v)
        except KeyError:
            pass
    cons = []
    while len(cons) + 1 in have:
        cons.append(len(cons) + 1)
    return cons, newest, [v for v in have if v not in cons]


def check_registry(res):
    from glue.core.state import GlueSerializer, GlueUnSerializer
    # (public interface of the registries only: membership, newest version, get_version)
    found = {}
    for name, reg in (('saver', GlueSerializer.dispatch), ('loader', GlueUnSerializer.dispatch)):
        found[name] = {}
        for typ in candidate_types():
            try:
                cons, newest, stray = versions_of(reg, typ)
            except TypeError:
                continue
            if newest is None:
                continue
            found[name][typ] = cons
            if stray or not cons:
                raise Violation('C12/registry-versions-not-consecutive/%s' % name, '%s: consecutive %s, also %s' % (typ, cons, stray))
            if newest != cons[-1]:
                raise Violation('C12/registry-default-not-newest/%s' % name, '%s: newest registered %s, default %s' % (typ, cons[-1], newest))
        res.probe('registered_types_found', len(found[name]))
    for typ, versions in found['saver'].items():
        loaders = found['loader'].get(typ, [])
        if not loaders:
            continue        # the statement quantifies over types that have a saver and a loader (Session is re-created by the application)
        for v in versions:
            if v not in loaders:
                raise Violation('C12/saved-version-without-loader', '%s version %d' % (typ, v))
    res.probe('registry_shape_checked')
    check_rename_table(res)


def check_versioned_registry(reg, res):
    """The registry class behind the saver / loader tables against a reference model, over a generated registration history:
    an attempt is accepted exactly when it is the next version of its key; nothing accepted is ever replaced."""
    from glue.core.state import VersionedDict
    d = VersionedDict()
    model = {}
    for n, (key, version) in enumerate(reg):
        value = 'value-%d' % n
        try:
            d['k%d' % key, version] = value
            accepted = True
        except (KeyError, ValueError):
            accepted = False
        have = model.setdefault(key, [])
        should = isinstance(version, int) and version == len(have) + 1
        res.nchecks += 1
        if accepted != should:
            raise Violation('C12/registry-%s' % ('accepts-out-of-order-or-repeated-version' if accepted else 'refuses-next-version'),
                            'key k%d holds versions 1..%d, registering version %r was %s' % (key, len(have), version, 'accepted' if accepted else 'refused'))
        if accepted:
            have.append(value)
            res.probe('registry_version_accepted')
        else:
            res.probe('registry_version_refused')
        for k, vals in model.items():
            if not vals:
                continue
            for v, val in enumerate(vals, 1):
                if d.get_version('k%d' % k, v) != val:
                    raise Violation('C12/registered-version-overwritten', 'key k%d version %d now holds %r, registered %r' % (k, v, d.get_version('k%d' % k, v), val))
            if d['k%d' % k] != (vals[-1], len(vals)):
                raise Violation('C12/registry-default-not-newest/model', 'key k%d' % k)


_TABLE_OK = []


def check_rename_table(res):
    """Every old name of the rename table must resolve, through the function the loader uses, to what the end of its chain of
    redirections names (same object, or the same failure to import), and chains must end.  Checked once per interpreter: the
    table is read at import time."""
    if _TABLE_OK:
        return
    from glue.core import state as ST

    def outcome(f, name):
        try:
            return ('ok', f(name))
        except Exception as e:
            return ('error', type(e).__name__)
    for old in sorted(ST.PATH_PATCHES):
        name, steps = old, 0
        while name in ST.PATH_PATCHES:
            name = ST.PATH_PATCHES[name]
            steps += 1
            if steps > len(ST.PATH_PATCHES):
                raise Violation('C12/rename-chain-does-not-terminate', old)
        want = outcome(ST.lookup_class, name)
        got = outcome(ST.lookup_class_with_patches, old)
        if want[0] != got[0] or (want[0] == 'ok' and want[1] is not got[1]):
            raise Violation('C12/renamed-class-resolves-elsewhere', '%s should resolve to %s (%s), the loader gets %s' % (old, name, want, got))
    _TABLE_OK.append(True)
    res.probe('rename_table_checked')


def skewed_serializer(typ, ver):
    from glue.core.state import GlueSerializer
    from glue.core.data import Data
    from glue.core.data_collection import DataCollection
    target = {'Data': Data, 'DataCollection': DataCollection}[typ]

    class OldWriter(GlueSerializer):
        def _dispatch(self, obj):
            if type(obj) is target:
                return self.dispatch.get_version(target, ver), ver
            return GlueSerializer._dispatch(self, obj)
    return OldWriter


def restrict(snap, typ, ver):
    for d in snap['data']:
        if typ == 'Data' and ver < 2:
            d['style'] = None
        if typ == 'Data' and ver < 5:
            d['meta'] = None
        if typ == 'DataCollection' and ver < 4:
            d['ext'] = [[n, 'reachable'] for n, _ in d['ext']]
    if typ == 'DataCollection' and ver < 4:
        snap['links'] = None        # versions <= 3 store the flattened ComponentLinks, not the helper objects
    return snap


def execute(case, res):
    tmp = tempfile.mkdtemp(prefix='verif-c12-')
    import glue.core.application_base as AB
    fs = seams.SimFS()
    fs.patch(AB)
    try:
        with warnings.catch_warnings():
            warnings.simplefilter('ignore')
            check_registry(res)
            check_versioned_registry(case['knobs'].get('reg', []), res)
            # reuse C02's executor with a version-skewed restart
            old = c02.restart
            c02.restart = lambda w, r, f, op: restart(w, r, f, op, case['knobs']['skew'])
            try:
                c02._execute(case, res, tmp, fs)
            finally:
                c02.restart = old
    finally:
        fs.unpatch()
        shutil.rmtree(tmp, ignore_errors=True)


def restart(w, res, fs, op, skew):
    typ, ver = skew
    dc = w.dc
    relax = typ == 'DataCollection' and ver < 4
    before = restrict(c02.snapshot(w, relax), typ, ver)
    fp = c02.fingerprint(w, True)
    res.probe(('data_v%d' if typ == 'Data' else 'dc_v%d') % ver)
    if len(dc.subset_groups):
        res.probe('skew_with_groups')
    if len(dc.external_links):
        res.probe('skew_with_links')
    if any(getattr(d, '_key_joins', None) for d in dc):
        res.probe('skew_with_joins')
    w.nsave += 1
    path = os.path.join(w.tmp, 's%d.glu' % w.nsave)
    cls = skewed_serializer(typ, ver)
    try:
        gs = cls(w.app, include_data=True)
        text = gs.dumps(indent=2)
    except Exception as e:
        res.log.append(['old-writer-raised', type(e).__name__])
        return      # the old format cannot express this session and says so: accepted
    with open(path, 'w') as f:
        f.write(text)
    res.fault('version_skew_%s_v%d' % (typ, ver))
    appcls = type(w.app)
    w.app = None
    w.pool = []
    gc.collect()
    try:
        app = appcls.restore_session(path)
    except Exception as e:
        raise Violation('C12/old-record-does-not-load/%s-v%d/%s' % (typ, ver, c02.where(e)),
                        'record written by the registered %s saver version %d cannot be loaded: %s: %s' % (typ, ver, type(e).__name__, str(e)[:300]))
    w.rebind(app)
    w.generation += 1
    after = restrict(c02.snapshot(w, relax), typ, ver)
    res.nchecks += 1
    if before['data']:
        res.nontrivial = True
        res.fp(typ, ver, *fp[:3])
    key, detail = c02.first_diff(before, after)
    res.log.append(['restart', typ, ver, W.arr_digest(np.frombuffer(repr(after).encode(), dtype=np.uint8))])
    if key is not None:
        raise Violation('C12/not-equivalent/%s-v%d/%s' % (typ, ver, key), detail)
