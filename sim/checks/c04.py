"""C04 - views of masks and attribute values equal the same view of the full array (weak claim).

This is mostly an input-space property; the simulator contributes where state is involved:
(i) masks are memoised per (state, data, view) in process-wide dictionaries, so what a view returns can
depend on what was asked before; (ii) an IndexedData changes its indices over time and follows its
parent through hub messages.  It is therefore checked as an observation-time invariant over generated
histories: every comparison asks glue for a view and for the full result and requires
``get(view) == get()[view]`` (same shape, same content); IndexedData results are compared with the
corresponding slice of the parent, also after index changes and parent updates.
"""
import numpy as np

from sim.core import Violation
from sim import world as W
from sim import linkfuncs as LF

PROP = 'C04'
TIERS = {
    'quick': {'runs': 4800, 'blocks': 16, 'max_ops': 30},
    'thorough': {'runs': 96000, 'blocks': 64, 'max_ops': 70},
}
RULE = ('Each run: 1-3 datasets (1-3-d) with stored float (NaN/inf) and integer attributes, a categorical attribute on 1-d data, derived, '
        'linked, pixel and world attributes; groups over all selection kinds and composites; then a seeded sequence of comparisons '
        '{value under view, mask under view, IndexedData values / masks / statistic / histogram vs parent slice} interleaved with writes '
        '{update_components, replace group state, change IndexedData indices, new IndexedData} and plain reads that warm the memo. Views: '
        'None, Ellipsis, slice tuples (possibly shorter than ndim), mixed integers and slices, tuples of integer index arrays, boolean masks. '
        'Non-trivial: >=1 comparison under a non-None view succeeded in being evaluated on both sides. distinct_nontrivial counts distinct '
        '(comparison kind, attribute kind or state class, view kind, ndim, reads-before bucket) fingerprints.')
EXPLANATION = ('Oracle: glue(view) must equal glue(None)[view] in shape and content (NaN-aware); for IndexedData, values / masks / statistics / '
               'histograms must equal numpy indexing of the parent result. Coverage of the attribute-kind x selection-kind x view-kind '
               'product is whatever the seeded workload reaches (reported as fingerprints); this is exploration, not enumeration.')
REAL = ['glue.core.data (get_data/get_mask under views)', 'glue.core.component', 'glue.core.subset', 'glue.core.data_derived.IndexedData',
        'glue.core.component_link', 'glue.core.coordinates', 'glue.utils.array']
STUB = ['uuid and identity-hash streams']
ASSUMPTIONS = ['glue is its own reference for the full array (view consistency is decided, not the meaning of the full result)',
               'sampling, not proof']
PROBES = ['value_view', 'mask_view', 'indexed_values', 'indexed_mask', 'indexed_stat', 'indexed_hist', 'indexed_after_index_change',
          'indexed_after_parent_update', 'view_after_other_view_read', 'world_attr_view', 'categorical_view', 'linked_attr_view', 'derived_attr_view',
          'boolmask_view', 'intarray_view', 'short_tuple_view', 'member_state_compared', 'pixel_axes_linked_permuted', 'indexed_with_selection',
          'reused_index_buffer', 'partial_index_arrays', 'arrays_mixed_with_slices', 'boolean_along_first_axis', 'negative_indices',
          'indexed_negative_index']

KINDS = ['ineq', 'range', 'mrange', 'roi', 'mask', 'slice', 'elem', 'catroi', 'cat', 'empty']
VIEWKINDS_ALL = ['none', 'ellipsis', 'slices', 'short', 'mixed', 'intarrays', 'bool',
             # round 7: every way numpy lets arrays take part in an index
             'arrshort', 'arrmixed', 'boolaxis', 'negarrays', 'intlist', 'bool-reused', 'arr-reused']
# Python lists are not generated as views: glue reads a list as a tuple in most places (world coordinates, derived attributes, mask and
# slice selections - numpy's former convention) and as an index array in others (stored attributes); the statement speaks of array views
VIEWKINDS = [k for k in VIEWKINDS_ALL if k != 'intlist']
WEIGHTS = {'cmp_val': 8, 'cmp_mask': 8, 'read': 4, 'upd': 2, 'set_state': 1.5, 'new_group': 1, 'indexed_new': 2, 'indexed_set': 2,
           'cmp_indexed': 6}


def gen_view(rng):
    k = rng.pick(VIEWKINDS)
    if k in ('none', 'ellipsis'):
        return [k]
    if k in ('slices', 'short'):
        return [k, [[rng.randrange(0, 3), rng.randrange(0, 5), rng.randrange(1, 3)] for _ in range(3)], rng.randrange(1, 3)]
    if k == 'mixed':
        # 'n': an integer counted from the end
        return [k, [[rng.pick(['i', 's', 'i', 's', 'n']), rng.randrange(0, 6), rng.randrange(1, 5), rng.randrange(1, 3)] for _ in range(3)]]
    if k in ('arrshort', 'negarrays'):
        return [k, rng.randrange(10000), rng.pick([1, 2, 3, 5]), rng.randrange(1, 3)]
    if k == 'arrmixed':
        return [k, rng.randrange(10000), rng.pick([1, 2, 3]), [rng.pick(['a', 's', 'i']) for _ in range(3)],
                [[rng.randrange(0, 3), rng.randrange(1, 5), rng.randrange(1, 3)] for _ in range(3)]]
    if k == 'intlist':
        return [k, [rng.randrange(0, 6) for _ in range(rng.randrange(1, 4))], rng.chance(0.5)]
    if k == 'intarrays':
        return [k, rng.randrange(10000), rng.pick([0, 1, 2, 3, 4, -1, -1])]     # -1: index arrays of the dataset's own shape
    return [k, rng.randrange(10000)]


def build_view(spec, shape, bufs=None):
    k = spec[0]
    nd = len(shape)
    if k in ('bool-reused', 'arr-reused'):
        # the very same array object(s) as the last time, filled anew in place (an index buffer a caller keeps)
        rs = np.random.RandomState(spec[1])
        key = (k, tuple(shape))
        if k == 'bool-reused':
            new = rs.randint(0, 2, size=shape).astype(bool)
            if bufs is None or key not in bufs:
                if bufs is not None:
                    bufs[key] = new
                return new
            bufs[key][...] = new
            return bufs[key]
        new = tuple(rs.randint(0, n, size=3) for n in shape)
        if bufs is None or key not in bufs:
            if bufs is not None:
                bufs[key] = new
            return new
        for b, x in zip(bufs[key], new):
            b[...] = x
        return bufs[key]
    if k == 'arrshort':
        rs = np.random.RandomState(spec[1])
        n = max(1, nd - spec[3])
        return tuple(rs.randint(0, m, size=spec[2]) for m in shape[:n])
    if k == 'negarrays':
        rs = np.random.RandomState(spec[1])
        return tuple(rs.randint(-m, m, size=spec[2]) for m in shape)
    if k == 'arrmixed':
        rs = np.random.RandomState(spec[1])
        kinds = list(spec[3][:nd])
        if 'a' not in kinds:
            kinds[0] = 'a'
        out = []
        for t, (a, b, c), m in zip(kinds, spec[4], shape):
            out.append(rs.randint(0, m, size=spec[2]) if t == 'a' else a % m if t == 'i' else slice(a % m, a % m + b, c))
        return tuple(out)
    if k == 'boolaxis':
        return (np.random.RandomState(spec[1]).randint(0, 2, size=shape[0]).astype(bool),)
    if k == 'intlist':
        return [i % shape[0] for i in spec[1]]
    if k == 'none':
        return None
    if k == 'ellipsis':
        return Ellipsis
    if k == 'slices':
        return tuple(slice(a, a + b, c) for a, b, c in spec[1][:nd])
    if k == 'short':
        n = max(1, nd - spec[2]) if nd > 1 else 1
        return tuple(slice(a, a + b, c) for a, b, c in spec[1][:n])
    if k == 'mixed':
        out = []
        for (t, a, b, c), n in zip(spec[1][:nd], shape):
            out.append(a % n if t == 'i' else a % n - n if t == 'n' else slice(a % n, a % n + b, c))
        return tuple(out)
    if k == 'intarrays':
        rs = np.random.RandomState(spec[1])
        if spec[2] == -1:
            return tuple(rs.randint(0, n, size=shape) for n in shape)       # result has the shape of the dataset, other content
        return tuple(rs.randint(0, n, size=spec[2]) for n in shape)
    if k == 'bool':
        return np.random.RandomState(spec[1]).randint(0, 2, size=shape).astype(bool)
    raise ValueError(k)


def view_kind(spec, shape):
    k = spec[0]
    if k == 'mixed' and all(t in 'in' for (t, a, b, c) in spec[1][:len(shape)]):
        return 'allint'
    if k in ('slices', 'short', 'mixed'):
        v = build_view(spec, shape)
        full = np.empty(shape, dtype=bool)[v]
        if full.size == 0:
            return k + '-empty'
    if k == 'intarrays' and spec[2] == 0:
        return 'intarrays-empty'
    return k


def generate(rng, cfg, guards):
    n = rng.randrange(6, cfg['max_ops'] + 1)
    w = {}
    for k, v in sorted(WEIGHTS.items()):
        if k in ('cmp_val', 'cmp_mask') or rng.chance(0.8):
            w[k] = v * rng.pick([0.5, 1, 2])
    pairs = sorted(w.items())
    r8 = lambda: rng.randrange(8)
    ops = []
    nd = rng.randrange(1, 4)
    # a quarter of the multi-dataset runs: two images / cubes whose pixel axes are linked one to one in a permuted order, and a
    # region drawn on two pixel axes of the first
    cubes = nd > 1 and rng.chance(0.25)
    cshape = rng.pick([3, 4, 5, 6, 7, 10])
    for i in range(nd):
        ops.append(['new', cshape if cubes and i < 2 else rng.randrange(len(W.SHAPES)), rng.randrange(1, 3), rng.randrange(10000), rng.chance(0.6),
                    rng.pick([0, 1, 2]), rng.chance(0.5)])
        ops.append(['append', i])
        if rng.chance(0.5):
            ops.append(['add_derived', i, r8(), rng.pick(['mul2', 'add3', 'neg'])])
    if cubes:
        ops.append(['link_pixels', 0, 1, rng.randrange(1000)])
        ops.append(['new_group', ['roipix', 0, r8(), r8(), rng.pick(['rect', 'circle', 'poly']),
                                  [rng.randrange(-1, 3) + 0.5, rng.randrange(-1, 3) + 0.5, rng.randrange(1, 4), rng.randrange(1, 4)]]])
    elif nd > 1 and rng.chance(0.7):
        ops.append(['add_link', 0, r8(), 1, r8(), rng.pick(sorted(LF.ONE))])
    for _ in range(rng.randrange(1, 3)):
        ops.append(['new_group', W.gen_recipe(rng, 2, KINDS)])
    while len(ops) < n:
        k = rng.wpick(pairs)
        if k == 'cmp_val':
            ops.append([k, r8(), rng.randrange(12), gen_view(rng)])
        elif k == 'cmp_mask':
            ops.append([k, r8(), r8(), gen_view(rng)])
        elif k == 'read':
            ops.append([k, r8(), r8(), gen_view(rng)])
        elif k == 'upd':
            ops.append([k, r8(), r8(), rng.randrange(10000)])
        elif k == 'set_state':
            ops.append([k, r8(), W.gen_recipe(rng, 2, KINDS)])
        elif k == 'new_group':
            ops.append([k, W.gen_recipe(rng, 2, KINDS)])
        elif k == 'indexed_new':
            ops.append([k, r8(), [rng.pick([None, None, 0, 1, 2, 3, -1, -2]) for _ in range(3)]])
        elif k == 'indexed_set':
            ops.append([k, r8(), [rng.pick([0, 1, 2, 3, rng.randrange(0, 4), -1, -2]) for _ in range(3)]])
            if rng.chance(0.4):
                # the same request before and after the indices change (same dataset, attribute, selection object)
                what = rng.pick(['hist', 'hist', 'stat', 'mask'])
                req = ['cmp_indexed', ops[-1][1], what, r8(), r8(), rng.pick(['minimum', 'maximum', 'sum', 'mean', 'median']), True]
                ops.insert(len(ops) - 1, req)
                ops.append(list(req))
        else:
            ops.append([k, r8(), rng.pick(['values', 'mask', 'stat', 'hist']), r8(), r8(),
                        rng.pick(['minimum', 'maximum', 'sum', 'mean', 'median']), rng.chance(0.4)])
    return {'knobs': {'guards': list(guards), 'prop': PROP}, 'ops': ops}


def attr_kind(d, cid):
    if cid in d.pixel_component_ids:
        return 'pixel'
    if cid in d.world_component_ids:
        return 'world'
    if cid in d.derived_components:
        return 'derived'
    if cid in d.main_components:
        return 'categorical' if d.get_kind(cid) == 'categorical' else 'stored'
    return 'linked'


RANK = {'stored': 0, 'computed': 1, 'world': 2}


def dep_of(d, cid, seen=None):
    """How glue obtains cid on d: 'stored' (array / pixel grid), 'computed' (through a ComponentLink, i.e.
    ComponentLink.compute + join_component_view) or 'world' (through a world-coordinate component of any dataset)."""
    seen = seen if seen is not None else set()
    if id(cid) in seen:
        return 'stored'
    seen.add(id(cid))
    par = getattr(cid, 'parent', None)
    if par is not None and hasattr(par, 'world_component_ids') and any(cid is c for c in par.world_component_ids):
        return 'world'
    try:
        comp = d.get_component(cid)
    except Exception:
        return 'stored'
    link = getattr(comp, 'link', None)
    if link is None:
        return 'stored'
    if type(link).__name__ == 'CoordinateComponentLink':
        return 'world'
    best = 'computed'
    for f in link.get_from_ids():
        x = dep_of(d, f, seen)
        if RANK[x] > RANK[best]:
            best = x
    return best


def selection_on_parent(w, par, sl, op, res):
    """For statistics / histograms of an IndexedData restricted to a selection: (the group's state object - the same one every
    time -, its mask on the parent cut to the indexed slice), 'skip' if the parent cannot evaluate it, None if not asked for."""
    from glue.core.exceptions import IncompatibleAttribute
    if not (len(op) > 6 and op[6]):
        return None
    g = w.pick_group(op[4])
    if g is None:
        return None
    try:
        m = np.asarray(par.get_mask(g.subset_state), dtype=bool)
    except (IncompatibleAttribute, IndexError, ValueError):
        return 'skip'
    res.probe('indexed_with_selection')
    return g.subset_state, np.broadcast_to(m, par.shape)[sl]


def attrs_of(st, out):
    from glue.core.component_id import ComponentID
    for kid in (getattr(st, 'state1', None), getattr(st, 'state2', None)):
        if kid is not None:
            attrs_of(kid, out)
    for kid in getattr(st, 'states', []):
        attrs_of(kid, out)
    for name in ('left', 'right', 'att', 'xatt', 'yatt', 'zatt'):
        a = getattr(st, name, None)
        if isinstance(a, ComponentID):
            out.append(a)
    for name in ('cids', 'atts', '_atts'):
        for a in (getattr(st, name, None) or []):
            if isinstance(a, ComponentID) and not any(a is x for x in out):
                out.append(a)
    if getattr(st, 'state1', None) is None and not getattr(st, 'states', None):
        # whatever else a leaf state declares (classes this harness has no special knowledge of)
        try:
            declared = list(st.attributes or [])
        except Exception:
            declared = []
        for a in declared:
            if isinstance(a, ComponentID) and not any(a is x for x in out):
                out.append(a)
    ref = getattr(st, 'reference_data', None)
    if ref is not None and hasattr(ref, 'pixel_component_ids'):
        out.extend(ref.pixel_component_ids)     # a slice selection is carried to other datasets through pixel links

    return out


def state_dep(d, st):
    classes = state_classes(st, set())
    best = 'stored'
    for a in attrs_of(st, []):
        x = dep_of(d, a)
        if RANK[x] > RANK[best]:
            best = x
    if best != 'world' and classes & {'CategoricalROISubsetState', 'CategorySubsetState'}:
        best = 'categorical-state'
    return best


def same(a, b):
    a, b = np.asarray(a), np.asarray(b)
    if a.shape != b.shape:
        return False
    if a.dtype.kind in 'fc' and b.dtype.kind in 'fc':
        return bool(np.all((a == b) | (np.isnan(a) & np.isnan(b))))
    return bool(np.all(a == b))


def state_classes(st, out):
    out.add(type(st).__name__)
    for kid in (getattr(st, 'state1', None), getattr(st, 'state2', None)):
        if kid is not None:
            state_classes(kid, out)
    for kid in getattr(st, 'states', []):
        state_classes(kid, out)
    return out


def execute(case, res):
    from glue.core.component_id import ComponentID
    from glue.core.component_link import ComponentLink
    from glue.core.data_derived import IndexedData
    from glue.core.exceptions import IncompatibleAttribute
    w = W.World(case['knobs'], res, None)
    dc = w.dc
    guards = w.guards
    indexed = []      # IndexedData objects (kept alive)
    parent_of, changed, keepalive = {}, set(), []     # the harness's own record (no private attribute of IndexedData is read)
    bufs = {}         # index buffers that are reused (filled anew in place)
    nreads = [0]
    last_view_read = {}
    nv = [0]
    updated_parents = set()

    def all_cids(d):
        return list(d.components) + [c for c in d.externally_derivable_components if c not in d.components]

    for op in case['ops']:
        k = op[0]
        res.nops += 1
        res.log.append([k])
        if k == 'new':
            w.new_data(op[1], op[2], op[3], cat=op[4], coords=op[5], special=op[6])
            d = w.pool[-1]
            d.add_component(W.values(op[3] + 50, d.shape, 'intdtype'), 'i%d' % len(w.pool))
        elif k == 'append':
            d = w.pick_pool(op[1])
            if d is not None:
                dc.append(d)
        elif k == 'add_derived':
            d = w.pick_data(op[1])
            if d is not None:
                src = w.pick_cid(d, op[2], True)
                nv[0] += 1
                d.add_component_link(ComponentLink([src], ComponentID('v%d' % nv[0], parent=d), using=LF.ONE[op[3]][0]))
        elif k == 'add_link':
            d1, d2 = w.pick_data(op[1]), w.pick_data(op[3])
            if d1 is not None and d1 is not d2:
                fw, bw = LF.ONE[op[5]]
                dc.add_link(ComponentLink([w.pick_cid(d1, op[2], True)], w.pick_cid(d2, op[4], True), using=fw, inverse=bw))
        elif k == 'link_pixels':
            d1, d2 = w.pick_data(op[1]), w.pick_data(op[2])
            if d1 is not None and d2 is not None and d1 is not d2 and d1.ndim == d2.ndim:
                perm = list(np.random.RandomState(op[3]).permutation(d1.ndim))
                for i, j in enumerate(perm):
                    dc.add_link(ComponentLink([d1.pixel_component_ids[i]], d2.pixel_component_ids[int(j)]))
                res.probe('pixel_axes_linked_permuted')
        elif k == 'new_group':
            dc.new_subset_group(subset_state=w.build_state(op[1]))
        elif k == 'set_state':
            g = w.pick_group(op[1])
            if g is not None:
                g.subset_state = w.build_state(op[2])
        elif k == 'upd':
            d = w.pick_data(op[1])
            if d is not None:
                mains = [c for c in d.main_components if d.get_kind(c) == 'numerical' and d[c].dtype.kind == 'f']
                if mains:
                    d.update_components({mains[op[2] % len(mains)]: W.values(op[3], d.shape, special=True)})
                    updated_parents.add(id(d))
        elif k in ('cmp_val', 'read') and (k == 'cmp_val' or op[2] < 100):
            d = w.pick_data(op[1])
            if d is None:
                continue
            cids = all_cids(d)
            cid = cids[op[2] % len(cids)]
            ak = attr_kind(d, cid)
            vk = view_kind(op[3], d.shape)
            dep = dep_of(d, cid)
            if ('C04-value-%s-%s' % (dep, vk)) in guards:
                continue
            view = build_view(op[3], d.shape, bufs)
            if k == 'read':
                try:
                    d.get_data(cid, view=view)
                except Exception:
                    pass
                nreads[0] += 1
                continue
            full = np.asarray(d.get_data(cid))
            exp = full[view] if view is not None else full
            try:
                got = np.asarray(d.get_data(cid, view=view))
            except Exception as e:
                raise Violation('C04/value-view/%s/%s' % (dep, vk), '%s.%s (%s) view %r raises %s: %s'
                                % (d.label, cid.label, ak, op[3], type(e).__name__, e))
            res.nchecks += 1
            res.probe('value_view')
            res.probe({'world': 'world_attr_view', 'categorical': 'categorical_view', 'linked': 'linked_attr_view',
                       'derived': 'derived_attr_view'}.get(ak, 'value_view'))
            res.probe({'bool': 'boolmask_view', 'intarrays': 'intarray_view', 'short': 'short_tuple_view'}.get(vk, 'value_view'))
            if view is not None:
                res.nontrivial = True
            res.fp('val', ak, vk, d.ndim, min(nreads[0], 3))
            if np.asarray(got).shape != np.asarray(exp).shape:
                raise Violation('C04/value-view/%s/%s' % (dep, vk), '%s.%s (%s) view %r: got shape %s, full[view] has %s'
                                % (d.label, cid.label, ak, op[3], np.asarray(got).shape, np.asarray(exp).shape))
            if not same(got, exp):
                raise Violation('C04/value-view/%s/%s' % (dep, vk), '%s.%s (%s) view %r: content differs' % (d.label, cid.label, ak, op[3]))
        elif k == 'cmp_mask':
            d, g = w.pick_data(op[1]), w.pick_group(op[2])
            if d is None or g is None:
                continue
            st = g.subset_state
            if op[2] >= 4:
                # a member of a composite / many-way-or state, evaluated on its own (it shares the memo with its parent's evaluation)
                kids = [x for x in (getattr(st, 'state1', None), getattr(st, 'state2', None)) if x is not None] + list(getattr(st, 'states', []))
                if kids:
                    st = kids[op[2] % len(kids)]
                    res.probe('member_state_compared')
            vk = view_kind(op[3], d.shape)
            classes = sorted(state_classes(st, set()))
            dep = state_dep(d, st)
            if ('C04-mask-%s-%s' % (dep, vk)) in guards:
                continue
            view = build_view(op[3], d.shape, bufs)
            if vk == 'intlist' and d.ndim >= len(view) and len(view) > 1:
                # the tuple of the same integers is another view (one element / a sub-array, not rows): ask for it first or afterwards
                tview = tuple(i % n for i, n in zip(op[3][1], d.shape))
                try:
                    fm = np.broadcast_to(np.asarray(d.get_mask(st), dtype=bool), d.shape)
                    if not op[3][2]:
                        pre = np.asarray(d.get_mask(st, view=view))
                    gt = np.asarray(d.get_mask(st, view=tview))
                except (IncompatibleAttribute, IndexError, ValueError):
                    gt = None
                if gt is not None:
                    res.probe('list_and_tuple_of_same_integers')
                    if gt.shape != fm[tview].shape or not np.array_equal(gt.astype(bool), fm[tview]):
                        raise Violation('C04/mask-view/%s/inttuple-after-intlist' % dep, '%s view %r classes %s: got %s expected %s' % (
                            d.label, tview, classes, gt.tolist(), fm[tview].tolist()))
            try:
                full = np.asarray(d.get_mask(st), dtype=bool)
            except IncompatibleAttribute:
                try:
                    d.get_mask(st, view=view)
                except Exception:
                    continue        # not evaluable on this dataset, with or without the view
                raise Violation('C04/mask-view/%s/%s' % (dep, vk), 'full mask incompatible but the view evaluates')
            except (IndexError, ValueError):
                continue    # the full mask itself is not defined (e.g. element indices out of range): nothing to compare
            if full.shape != tuple(d.shape):
                full = np.broadcast_to(full, d.shape)
            exp = full[view] if view is not None else full
            try:
                got = np.asarray(d.get_mask(st, view=view))
            except Exception as e:
                raise Violation('C04/mask-view/%s/%s' % (dep, vk), '%s view %r classes %s raises %s: %s'
                                % (d.label, op[3], classes, type(e).__name__, e))
            res.nchecks += 1
            res.probe('mask_view')
            res.probe({'bool': 'boolmask_view', 'intarrays': 'intarray_view', 'short': 'short_tuple_view', 'bool-reused': 'reused_index_buffer',
                       'arr-reused': 'reused_index_buffer', 'arrshort': 'partial_index_arrays', 'arrmixed': 'arrays_mixed_with_slices',
                       'boolaxis': 'boolean_along_first_axis', 'negarrays': 'negative_indices', 'intlist': 'list_of_integers'}.get(vk, 'mask_view'))
            key = (id(st), id(d))
            if key in last_view_read and last_view_read[key] != repr(op[3]):
                res.probe('view_after_other_view_read')
            last_view_read[key] = repr(op[3])
            if view is not None:
                res.nontrivial = True
            res.fp('mask', type(st).__name__, vk, d.ndim, min(nreads[0], 3))
            if got.shape != exp.shape:
                raise Violation('C04/mask-view/%s/%s' % (dep, vk), '%s view %r classes %s: got shape %s, full[view] has %s'
                                % (d.label, op[3], classes, got.shape, exp.shape))
            if not np.array_equal(np.asarray(got, dtype=bool), exp):
                raise Violation('C04/mask-view/%s/%s' % (dep, vk), '%s view %r classes %s: content differs' % (d.label, op[3], classes))
        elif k == 'indexed_new':
            d = w.pick_data(op[1])
            if d is None or d.ndim < 2:
                continue
            idx = [None if i is None else i % n if i >= 0 else max(i, -n) for i, n in zip(op[2][:d.ndim], d.shape)]
            if any(i is not None and i < 0 for i in idx):
                res.probe('indexed_negative_index')
            if all(i is not None for i in idx):
                idx[0] = None
            if all(i is None for i in idx):
                idx[-1] = 0
            x = IndexedData(d, tuple(idx))
            parent_of[id(x)] = d
            keepalive.append(x)       # ids stay unique
            if op[1] % 2 == 0:
                x.register_to_hub(w.hub)     # half of them live outside any hub
            indexed.append(x)
            del indexed[:-3]
        elif k == 'indexed_set':
            if not indexed:
                continue
            x = indexed[op[1] % len(indexed)]
            par = parent_of[id(x)]
            new = tuple(None if i is None else v % n if v >= 0 else max(v, -n) for i, v, n in zip(x.indices, op[2], par.shape))
            if any(i is not None and i < 0 for i in new):
                res.probe('indexed_negative_index')
            x.indices = new
            changed.add(id(x))
        elif k == 'cmp_indexed':
            if not indexed:
                continue
            x = indexed[op[1] % len(indexed)]
            par = parent_of[id(x)]
            sl = tuple(slice(None) if i is None else i for i in x.indices)
            what = op[2]
            if id(x) in changed:
                res.probe('indexed_after_index_change')
            if id(par) in updated_parents:
                res.probe('indexed_after_parent_update')
            if tuple(x.shape) != np.empty(par.shape)[sl].shape:
                raise Violation('C04/indexed-shape', 'indices %s parent %s: shape %s' % (x.indices, par.shape, x.shape))
            mains = list(x.main_components)
            pm = list(par.main_components)
            j = op[3] % len(mains)
            if what == 'values':
                for cx, cp in list(zip(mains, pm)) + list(zip(x.pixel_component_ids, [par.pixel_component_ids[a] for a, i in enumerate(x.indices) if i is None])):
                    got = np.asarray(x.get_data(cx))
                    exp = np.asarray(par.get_data(cp))[sl]
                    res.nchecks += 1
                    if not same(got, exp):
                        raise Violation('C04/indexed-values', 'indices %s component %s' % (x.indices, cx.label))
                res.probe('indexed_values')
                res.fp('ivals', par.ndim, sum(1 for i in x.indices if i is None))
            elif what == 'mask':
                g = w.pick_group(op[4])
                if g is None:
                    continue
                try:
                    exp = np.asarray(par.get_mask(g.subset_state), dtype=bool)
                except (IncompatibleAttribute, IndexError, ValueError):
                    continue
                exp = np.broadcast_to(exp, par.shape)[sl]
                got = np.asarray(x.get_mask(g.subset_state), dtype=bool)
                res.nchecks += 1
                res.probe('indexed_mask')
                res.fp('imask', type(g.subset_state).__name__, par.ndim)
                if got.shape != exp.shape or not np.array_equal(got, exp):
                    raise Violation('C04/indexed-mask/%s' % type(g.subset_state).__name__, 'indices %s' % (x.indices,))
            elif what == 'stat':
                if x.get_kind(mains[j]) != 'numerical':
                    continue
                vals = np.asarray(par.get_data(pm[j]), dtype=float)[sl]
                kw = {}
                sel = selection_on_parent(w, par, sl, op, res)
                if sel is not None:
                    if isinstance(sel, str):
                        continue
                    vals = vals[sel[1]]
                    kw['subset_state'] = sel[0]
                fin = vals[np.isfinite(vals)]
                f = {'minimum': np.min, 'maximum': np.max, 'sum': np.sum, 'mean': np.mean, 'median': np.median}[op[5]]
                exp = float(f(fin)) if fin.size else float('nan')
                try:
                    got = float(x.compute_statistic(op[5], mains[j], **kw))
                except IncompatibleAttribute:
                    if kw:
                        continue        # the selection is not evaluable on the reduced dataset (its attributes are not all kept)
                    raise
                except (IndexError, ValueError, AttributeError, TypeError) as e:
                    if kw:              # the parent evaluated this selection in full: the reduced dataset must cope with the view
                        raise Violation('C04/indexed-statistic-raises/%s' % type(e).__name__, 'indices %s %s selection %s: %s' % (
                            x.indices, op[5], type(sel[0]).__name__, str(e)[:200]))
                    raise
                res.nchecks += 1
                res.probe('indexed_stat')
                res.fp('istat', op[5], par.ndim)
                if not (got == exp or (np.isnan(got) and np.isnan(exp)) or abs(got - exp) <= 1e-9 * max(1.0, abs(exp))):
                    raise Violation('C04/indexed-statistic/%s' % op[5], 'indices %s: got %r expected %r' % (x.indices, got, exp))
            else:
                if x.get_kind(mains[j]) != 'numerical':
                    continue
                vals = np.asarray(par.get_data(pm[j]), dtype=float)[sl]
                kw = {}
                sel = selection_on_parent(w, par, sl, op, res)
                if sel is not None:
                    if isinstance(sel, str):
                        continue
                    vals = vals[sel[1]]
                    kw['subset_state'] = sel[0]
                from glue.core.data import Data
                manual = Data(x=np.asarray(vals).ravel())
                exp = np.asarray(manual.compute_histogram([manual.id['x']], range=[(-5, 13)], bins=[6])).astype(int) if manual.size else np.zeros(6, dtype=int)
                try:
                    got = np.asarray(x.compute_histogram([mains[j]], range=[(-5, 13)], bins=[6], **kw))
                except IncompatibleAttribute as e:
                    if kw:
                        continue
                    raise Violation('C04/indexed-histogram-raises', 'indices %s: IncompatibleAttribute %s' % (x.indices, e))
                except (IndexError, ValueError, AttributeError, TypeError) as e:
                    if kw:
                        raise Violation('C04/indexed-histogram-raises/%s' % type(e).__name__, 'indices %s selection %s: %s' % (
                            x.indices, type(sel[0]).__name__, str(e)[:200]))
                    raise
                res.nchecks += 1
                res.probe('indexed_hist')
                res.fp('ihist', par.ndim)
                if not np.array_equal(got.astype(int), exp):
                    raise Violation('C04/indexed-histogram', 'indices %s: got %s expected %s' % (x.indices, got, exp))
