"""C03 - linked attributes are reachable exactly through links and carry composed values.

Engine E2.  Histories of add/remove link (all helper kinds), add/remove component, add/remove/
re-append dataset, set_links, inside and outside link-manager and hub delay windows, with rejected
calls.  Oracle (A): a reference model of the registered link multiset, reachability with glue's cost
rule and the values allowed along minimum-cost derivations, validated against the real datasets
through the public API after every quiescent step.
"""
import gc

import numpy as np

from sim.core import Violation
from sim import world as W
from sim import linkfuncs as LF

PROP = 'C03'
TIERS = {
    'quick': {'runs': 6400, 'blocks': 16, 'max_ops': 28},
    'thorough': {'runs': 128000, 'blocks': 64, 'max_ops': 70},
}
RULE = ('Each run is one seeded history over up to 5 datasets (1-3-d, some with identity/affine coordinates): new dataset, append, '
        'remove, re-append, add stored component, add derived component (internal link), remove component, add link of kind '
        '{one-way, one-way with inverse, identity ComponentLink, LinkSame, LinkTwoWay, two-input MultiLink, LinkAligned}, add a '
        'registered link again, remove link, set_links(subset), open/close link-manager and hub delay windows (also by exception), '
        'extend/append with a non-dataset (rejected call). Non-trivial: the oracle compared at least one dataset that reaches at '
        'least one foreign attribute. distinct_nontrivial counts distinct (op kind, #datasets, #registered links, sorted per-dataset '
        'reachable-count vector, delay depth) fingerprints at oracle evaluations.')
EXPLANATION = ('Model: multiset of registered links tracked from the history (minus links touching a removed component or dataset); '
               'per dataset Bellman-Ford over registered links, their inverses and internal links with cost = 1 + max input depth. '
               'Checks: dc.external_links equals the model multiset by identity; the foreign part of externally_derivable_components '
               'equals the model reachable set; every reachable value equals some minimum-cost one-step derivation applied to the '
               '(already validated) inputs; an inequality selection on any attribute gives exactly value>t where reachable and '
               'IncompatibleAttribute elsewhere.')
REAL = ['glue.core.link_manager', 'glue.core.data_collection', 'glue.core.component_link', 'glue.core.link_helpers',
        'glue.core.data', 'glue.core.component', 'glue.core.hub', 'glue.core.coordinates']
STUB = ['link functions (sim/linkfuncs.py, exact on the generated values)', 'identity-hash stream deciding set order of links']
ASSUMPTIONS = ['no key joins in this check (C11 covers them)', 'oracle only at quiescence', 'sampling, not proof',
               'adding the same LinkCollection twice raises AttributeError in glue; modelled as a loud rejection']
PROBES = ['chain_depth_ge_2', 'chain_depth_ge_3', 'cycle_or_diamond_choice', 'link_autoremoved_by_component', 'link_autoremoved_by_dataset',
          'reappend_after_links', 'ops_in_link_delay_window', 'rejected_extend', 'duplicate_link', 'multi_input_reached',
          'incompatible_checked', 'aligned_link', 'mask_selection_on_linked_dataset', 'component_removed_from_removed_dataset', 'component_removed_from_removed_dataset_in_hub_window',
          'two_input_link_across_datasets']

WEIGHTS = {'new': 3, 'append': 4, 'remove': 1.5, 'add_comp': 2, 'add_derived': 2, 'remove_comp': 1.5, 'add_link': 9,
           'add_again': 0.7, 'remove_link': 2.5, 'set_links': 0.7, 'delay_open': 1.5, 'delay_close': 2, 'extend_junk': 0.5,
           'append_junk': 0.2, 'collect': 0.3}
KINDS = [('oneway', 3), ('oneway_inv', 2), ('identity', 2), ('same', 2), ('twoway', 3), ('multi', 2), ('aligned', 1)]


def generate(rng, cfg, guards):
    n = rng.randrange(4, cfg['max_ops'] + 1)
    w = {}
    for k, v in sorted(WEIGHTS.items()):
        if k in ('new', 'append', 'add_link') or rng.chance(0.75):
            w[k] = v * rng.pick([0.5, 1, 2])
    pairs = sorted(w.items())
    ops = []
    for i in range(rng.randrange(2, 4)):
        ops.append(['new', rng.randrange(len(W.SHAPES)), rng.randrange(1, 3), rng.randrange(10000), False, rng.pick([0, 0, 1, 2])])
        ops.append(['append', i])
    r8 = lambda: rng.randrange(8)
    while len(ops) < n:
        k = rng.wpick(pairs)
        if k == 'new':
            ops.append(['new', rng.randrange(len(W.SHAPES)), rng.randrange(1, 3), rng.randrange(10000), False, rng.pick([0, 0, 1, 2])])
        elif k == 'add_comp':
            ops.append([k, r8(), rng.randrange(10000)])
        elif k == 'add_derived':
            ops.append([k, r8(), r8(), rng.pick(sorted(LF.ONE))])
        elif k == 'remove_comp':
            ops.append([k, r8(), r8(), rng.pick([False] * 6 + ['pool', 'last', 'last', 'last'])])
        elif k == 'add_link':
            kind = rng.wpick(KINDS)
            ops.append([k, kind, r8(), r8(), r8(), r8(), rng.pick(sorted(LF.ONE)), r8(), rng.pick(sorted(LF.TWO)),
                        rng.pick([None, r8(), r8()]), rng.chance(0.5)])
        elif k in ('add_again', 'remove_link'):
            ops.append([k, r8()])
        elif k == 'set_links':
            ops.append([k, rng.randrange(256)])
        else:
            ops.append(W.gen_common(rng, k))
    if rng.chance(0.3):
        # a fault placed right after a membership change: a dataset leaves the collection and is modified while its
        # removal is still queued in a hub window (either order)
        h = r8()
        snip = [['remove', h], ['remove_comp', h, r8(), 'last']]
        if rng.chance(0.3):
            snip = [['remove_comp', h, r8(), False], ['remove', h]]
        snip = [['delay_open', 'hub']] + snip + [['delay_close', False]]
        at = rng.randrange(len(ops) // 2, len(ops) + 1)
        ops[at:at] = snip
    return {'knobs': {'guards': list(guards), 'prop': PROP}, 'ops': ops}


class LinkRec(object):
    def __init__(self, obj, edges, kind):
        self.obj = obj
        self.edges = edges      # list of (from tuple, to, fn)
        self.kind = kind
        self.cids = set()
        for f, t, _ in edges:
            self.cids.update(f)
            self.cids.add(t)


class Model(object):
    def __init__(self):
        self.links = []           # registered LinkRec (multiset, in registration order)
        self.derived = {}         # data -> list of (from cid, to cid, fn)   (internal links)
        self.raw = {}             # cid -> ndarray supplied by the harness

    def internal_edges(self, d):
        out = list(self.derived.get(d, []))
        if d.coords is not None:
            # the generated coordinates (identity, diagonal affine) are axis-separable: world axis i depends on pixel axis i only
            pix, wor = tuple(d.pixel_component_ids), tuple(d.world_component_ids)
            for i, wcid in enumerate(wor):
                out.append(((pix[i],), wcid, ('p2w', d, i)))
            for i, pcid in enumerate(pix):
                out.append(((wor[i],), pcid, ('w2p', d, i)))
        return out

    def edges(self, dc):
        out = []
        for d in dc:
            out.extend(self.internal_edges(d))
        for rec in self.links:
            out.extend(rec.edges)
        return out

    def remove_touching(self, cids):
        gone = [r for r in self.links if any(any(c is x for x in r.cids) for c in cids)]
        self.links = [r for r in self.links if r not in gone]
        return len(gone)


def apply_fn(fn, args):
    if isinstance(fn, tuple) and len(fn) == 3:
        kind, d, i = fn
        n = d.ndim
        full = [np.zeros_like(np.asarray(args[0], dtype=float)) for _ in range(n)]
        full[i] = np.asarray(args[0], dtype=float)
        f = d.coords.pixel_to_world_values if kind == 'p2w' else d.coords.world_to_pixel_values
        out = f(*full[::-1])
        out = list(out) if isinstance(out, (tuple, list)) else [out]
        return np.asarray(out[::-1][i], dtype=float)
    if fn == 'identity':
        return np.asarray(args[0])
    if fn in LF.TWO:
        return np.asarray(LF.TWO[fn](*args))
    name, inv = fn
    f = LF.ONE[name][1 if inv else 0]
    return np.asarray(f(*args))


def same(a, b):
    a, b = np.asarray(a, dtype=float), np.asarray(b, dtype=float)
    return a.shape == b.shape and bool(np.all((a == b) | (np.isnan(a) & np.isnan(b))))


def execute(case, res):
    from glue.core.component_id import ComponentID
    from glue.core.component_link import ComponentLink
    from glue.core import link_helpers as LH
    from glue.core.exceptions import IncompatibleAttribute
    w = W.World(case['knobs'], res, None)
    m = Model()
    ncomp = [0]
    pending = []
    last_removed = [None]

    def own_cids(d):
        return [c for c in d.components if c not in d.coordinate_components]

    def register_raw(d):
        for c in d.main_components:
            if not any(c is k for k in m.raw):
                m.raw[c] = np.array(d[c])

    def flush_pending():
        if pending and not any(kk == 'hub' for kk, _ in w.cms):
            # the link manager drops links when the (possibly queued) removal message reaches it
            for what, x in pending:
                if what == 'data':
                    if m.remove_touching([c for c in x.components if c.parent is x]):
                        res.probe('link_autoremoved_by_dataset')
                elif m.remove_touching(x):
                    res.probe('link_autoremoved_by_component')
            del pending[:]

    def sync_limbo():
        # While a removal is still queued in a hub window the statement leaves open whether the links that touch the removed
        # objects are already gone ("immediately") or go when the message is delivered: the model follows what the collection shows.
        # When the window closes they must be gone (flush_pending + oracle).
        if not pending:
            return
        real = list(w.dc.external_links)
        for what, x in pending:
            cids = [c for c in x.components if c.parent is x] if what == 'data' else x
            for r in list(m.links):
                if any(any(c is y for y in r.cids) for c in cids) and not any(r.obj is o for o in real):
                    m.links.remove(r)
                    res.probe('link_autoremoved_before_delivery')

    for op in case['ops']:
        k = op[0]
        res.nops += 1
        dc = w.dc
        sync_limbo()
        if w.cms and any(kk == 'links' for kk, _ in w.cms) and k in ('add_link', 'remove_link', 'append', 'remove', 'remove_comp'):
            res.probe('ops_in_link_delay_window')
        try:
            if k == 'new':
                d = w.new_data(*op[1:])
                register_raw(d)
            elif k == 'append':
                d = w.pick_pool(op[1])
                if d is not None:
                    if d not in list(dc) and m.links:
                        res.probe('reappend_after_links')
                    dc.append(d)
            elif k == 'remove':
                d = w.pick_data(op[1])
                if d is not None:
                    dc.remove(d)
                    last_removed[0] = d
                    pending.append(('data', d))
            elif k == 'add_comp':
                d = w.pick_data(op[1])
                if d is not None:
                    ncomp[0] += 1
                    arr = W.values(op[2], d.shape)
                    cid = d.add_component(arr, 'x%d' % ncomp[0])
                    m.raw[cid] = arr
            elif k == 'add_derived':
                d = w.pick_data(op[1])
                if d is not None:
                    src = w.pick_cid(d, op[2], True)
                    ncomp[0] += 1
                    to = ComponentID('v%d' % ncomp[0], parent=d)
                    d.add_component_link(ComponentLink([src], to, using=LF.ONE[op[3]][0]))
                    m.derived.setdefault(d, []).append(((src,), to, (op[3], False)))
            elif k == 'remove_comp':
                # op[3]: any dataset ever made, also one that has left the collection (its queued removal may still be in a window)
                how = op[3] if len(op) > 3 else False
                d = last_removed[0] if how == 'last' else w.pick_pool(op[1]) if how else w.pick_data(op[1])
                if d is not None:
                    if d not in list(dc):
                        res.probe('component_removed_from_removed_dataset')
                        if any(kk == 'hub' for kk, _ in w.cms):
                            res.probe('component_removed_from_removed_dataset_in_hub_window')
                    cands = own_cids(d)
                    if len(d.main_components) > 1 or any(c in d.derived_components for c in cands):
                        cid = cands[op[2] % len(cands)]
                        if cid in d.main_components and len(d.main_components) == 1:
                            continue
                        # cascade in the model: derived attributes that depend on it, transitively
                        gone = [cid]
                        changed = True
                        while changed:
                            changed = False
                            for f, t, _ in m.derived.get(d, []):
                                if any(any(x is g for g in gone) for x in f) and not any(t is g for g in gone):
                                    gone.append(t)
                                    changed = True
                        d.remove_component(cid)
                        m.derived[d] = [e for e in m.derived.get(d, []) if not any(e[1] is g for g in gone)]
                        pending.append(('comps', gone))
            elif k == 'add_link':
                _, kind, h1, c1, h2, c2, f1, c3, f2 = op[:9]
                d1, d2 = w.pick_data(h1), w.pick_data(h2)
                if d1 is None:
                    continue
                a, b = w.pick_cid(d1, c1, True), w.pick_cid(d2, c2, True)
                # the second input of a two-input link may live in a third dataset
                d3 = w.pick_data(op[9]) if len(op) > 9 and op[9] is not None else d1
                a2 = w.pick_cid(d3, c3, True)
                if d3 is not d1 and kind == 'multi':
                    res.probe('two_input_link_across_datasets')
                fw, bw = LF.ONE[f1]
                if kind == 'oneway':
                    obj = ComponentLink([a], b, using=fw)
                    edges = [((a,), b, (f1, False))]
                elif kind == 'oneway_inv':
                    obj = ComponentLink([a], b, using=fw, inverse=bw)
                    edges = [((a,), b, (f1, False)), ((b,), a, (f1, True))]
                elif kind == 'identity':
                    obj = ComponentLink([a], b)
                    edges = [((a,), b, 'identity'), ((b,), a, 'identity')]
                elif kind == 'same':
                    obj = LH.LinkSame(a, b)
                    edges = [((a,), b, 'identity'), ((b,), a, 'identity')]
                elif kind == 'twoway':
                    obj = LH.LinkTwoWay(a, b, fw, bw)
                    edges = [((a,), b, (f1, False)), ((b,), a, (f1, True))]
                elif kind == 'multi':
                    if len(op) > 10 and op[10]:
                        obj = ComponentLink([a, a2], b, using=LF.TWO[f2])
                    else:
                        obj = LH.MultiLink([a, a2], [b], forwards=LF.TWO[f2], labels2=['out'])
                    edges = [((a, a2), b, f2)]
                else:
                    try:
                        obj = LH.LinkAligned(d1, d2)
                    except TypeError:
                        continue
                    res.probe('aligned_link')
                    edges = []
                    for p, q in zip(d1.pixel_component_ids, d2.pixel_component_ids):
                        edges += [((p,), q, 'identity'), ((q,), p, 'identity')]
                dc.add_link(obj)
                m.links.append(LinkRec(obj, edges, kind))
            elif k == 'add_again':
                if m.links:
                    rec = m.links[op[1] % len(m.links)]
                    res.probe('duplicate_link')
                    try:
                        dc.add_link(rec.obj)
                    except AttributeError:
                        if rec.kind in ('same', 'twoway', 'multi', 'aligned'):
                            continue        # duplicate LinkCollection: loud rejection, nothing registered
                        raise
                    if rec.kind in ('oneway_inv', 'identity'):
                        # glue registers a link with an inverse again only if the inverse is not registered: it is not
                        pass
                    m.links.append(LinkRec(rec.obj, rec.edges, rec.kind))
            elif k == 'remove_link':
                if m.links:
                    i = op[1] % len(m.links)
                    rec = m.links[i]
                    dc.remove_link(rec.obj)
                    # list.remove drops the first identical entry
                    j = [r.obj is rec.obj for r in m.links].index(True)
                    del m.links[j]
            elif k == 'set_links':
                keep = [r for i, r in enumerate(m.links) if (op[1] >> (i % 8)) & 1]
                uniq = []
                for r in keep:
                    if not any(r.obj is u.obj for u in uniq):
                        uniq.append(r)
                dc.set_links([r.obj for r in uniq])
                m.links = uniq
            else:
                out = W.exec_common(w, op)
                if k == 'extend_junk' and out == W.EXPECTED:
                    res.probe('rejected_extend')
        except W.OpCrash as e:
            raise Violation('C03/crash/%s:%s' % (k, type(e.exc).__name__), str(e))
        flush_pending()
        res.log.append([k, len(w.dc), len(m.links), len(w.cms)])
        if w.quiescent():
            oracle(w, m, res, k)
    w.close_all_windows()
    flush_pending()
    oracle(w, m, res, 'end')


def oracle(w, m, res, k):
    from glue.core.exceptions import IncompatibleAttribute
    from glue.core.subset import InequalitySubsetState
    import operator
    dc = w.dc
    # (1) registered links
    real = list(dc.external_links)
    exp = [r.obj for r in m.links]
    if len(real) != len(exp) or any(not any(x is y for y in exp) for x in real) or \
            any(sum(1 for x in real if x is o) != sum(1 for x in exp if x is o) for o in exp):
        raise Violation('C03/registered-links-differ/%s' % k,
                        'dc.external_links has %d entries, history says %d' % (len(real), len(exp)))
    edges = m.edges(dc)
    counts = []
    digest = []
    for d in dc:
        start = list(d.main_components) + list(d.coordinate_components)
        depth = {}
        for c in start:
            depth[c] = 0
        changed = True
        while changed:
            changed = False
            for f, t, fn in edges:
                if all(x in depth for x in f):
                    cost = max([depth[x] for x in f]) + 1 if f else 1
                    if t not in depth or cost < depth[t]:
                        depth[t] = cost
                        changed = True
        own = list(d.components)
        reach = [c for c in depth if depth[c] > 0 and not any(c is o for o in own)]
        real_reach = [c for c in d.externally_derivable_components if not any(c is o for o in own)]
        if len(reach) != len(real_reach) or any(not any(c is r for r in real_reach) for c in reach):
            raise Violation('C03/reachable-set-differs/%s' % k,
                            'dataset %s: model reaches %s, glue reaches %s' % (
                                d.label, sorted('%s.%s' % (getattr(c.parent, 'label', None), c.label) for c in reach),
                                sorted('%s.%s' % (getattr(c.parent, 'label', None), c.label) for c in real_reach)))
        counts.append(len(reach))
        if reach:
            res.nontrivial = True
        # (2) stored values are the supplied arrays
        for c in d.main_components:
            if c in m.raw and not same(d[c], m.raw[c]):
                raise Violation('C03/stored-value-changed/%s' % k, '%s.%s' % (d.label, c.label))
        # (3) values along minimum-cost derivations, in depth order
        for c in sorted(reach, key=lambda c: depth[c]):
            val = d[c]
            ok = False
            ncand = 0
            for f, t, fn in edges:
                if t is c and all(x in depth for x in f) and (max([depth[x] for x in f]) + 1) == depth[c]:
                    ncand += 1
                    if same(val, np.broadcast_to(apply_fn(fn, [np.asarray(d[x]) for x in f]), d.shape)):
                        ok = True
                        if len(f) > 1:
                            res.probe('multi_input_reached')
            res.nchecks += 1
            if ncand > 1:
                res.probe('cycle_or_diamond_choice')
            if depth[c] >= 2:
                res.probe('chain_depth_ge_2')
            if depth[c] >= 3:
                res.probe('chain_depth_ge_3')
            if not ok:
                raise Violation('C03/composed-value-wrong/%s' % k,
                                'dataset %s reads %s.%s (depth %d) = %s which is no minimum-cost derivation (%d candidates)'
                                % (d.label, getattr(c.parent, 'label', None), c.label, depth[c],
                                   np.asarray(val).ravel()[:6], ncand))
            digest.append([d.label, c.label, W.arr_digest(val)])
    # (4) selections: exact where reachable, incompatible elsewhere
    probe_cids = []
    for d in dc:
        probe_cids.extend(d.main_components[:2])
        probe_cids.extend(d.derived_components[:1])
    for cid in probe_cids[:6]:
        for d in dc:
            state = InequalitySubsetState(cid, 2.5, operator.gt)
            try:
                vals = d[cid]
                can = True
            except IncompatibleAttribute:
                can = False
            try:
                mask = d.get_mask(state)
                got = True
            except IncompatibleAttribute:
                got = False
            res.nchecks += 1
            if can != got:
                raise Violation('C03/selection-compatibility-wrong/%s' % k,
                                'dataset %s %s read %s but the selection on it is %s' % (
                                    d.label, 'can' if can else 'cannot', cid.label, 'evaluated' if got else 'incompatible'))
            if not can:
                res.probe('incompatible_checked')
            if can and not np.array_equal(np.asarray(mask, dtype=bool), np.asarray(vals) > 2.5):
                raise Violation('C03/selection-mask-wrong/%s' % k, 'dataset %s attribute %s' % (d.label, cid.label))
    # (5) a mask selection defined on one dataset's pixel grid, evaluated in every dataset that reaches those pixel attributes
    from glue.core.subset import MaskSubsetState
    for a in list(dc)[:2]:
        if a.size == 0:
            continue
        mask = np.random.RandomState(len(m.links) * 7 + a.ndim).randint(0, 2, size=a.shape).astype(bool)
        for d in dc:
            state = MaskSubsetState(mask, a.pixel_component_ids)
            try:
                vals = [np.asarray(d[c]) for c in a.pixel_component_ids]
                can = True
            except IncompatibleAttribute:
                can = False
            if can and d is not a and not all(np.all(v == np.round(v)) for v in vals):
                continue        # non-integer pixel positions: which pixel they fall in is not defined by the statement
            try:
                got = np.asarray(d.get_mask(state), dtype=bool)
                ok = 'ok'
            except IncompatibleAttribute:
                ok = 'incompatible'
            except Exception as e:
                ok = 'crash:%s' % type(e).__name__
            res.nchecks += 1
            if ok.startswith('crash'):
                raise Violation('C03/mask-selection-on-linked-dataset-crashes/%s' % ok[6:], 'mask defined on %s evaluated on %s' % (a.label, d.label))
            if (ok == 'ok') != can:
                raise Violation('C03/selection-compatibility-wrong/mask/%s' % k, 'mask on %s, dataset %s: readable=%s evaluated=%s' % (a.label, d.label, can, ok))
            if can:
                iv = [v.astype(int) for v in vals]
                inb = np.ones(d.shape, dtype=bool)
                for v, n in zip(iv, mask.shape):
                    inb &= (v >= 0) & (v < n)
                exp = np.zeros(d.shape, dtype=bool)
                exp[inb] = mask[tuple(np.broadcast_to(v, d.shape)[inb] for v in iv)]
                res.probe('mask_selection_on_linked_dataset' if d is not a else 'incompatible_checked', 1 if d is not a else 0)
                if got.shape != exp.shape or not np.array_equal(got, exp):
                    raise Violation('C03/mask-selection-wrong-on-linked-dataset/%s' % k, 'mask on %s evaluated on %s' % (a.label, d.label))
    res.log.append(['obs', counts, digest])
    res.fp(k, len(dc), len(m.links), sorted(counts), len(w.cms))
