"""C11 - key joins propagate selections by key membership, in all four join shapes (moderate claim).

Engine E2, oracle (A).  The join graph is session state that evolves (join_on_key, JoinLink added /
removed through the link manager, key columns updated, datasets removed from the collection), evaluation
goes through a per-dataset guard flag that must be restored on every exit path, and partner masks pass
through the memo.  The oracle is the relational definition written with plain Python sets of key values.
"""
import operator

import numpy as np

from sim.core import Violation
from sim import world as W

PROP = 'C11'
TIERS = {
    'quick': {'runs': 6400, 'blocks': 16, 'max_ops': 22},
    'thorough': {'runs': 128000, 'blocks': 64, 'max_ops': 50},
}
RULE = ('Each run: 2-4 one-dimensional tables with key columns of kind int / float / short and long strings (duplicates; numeric keys of mixed '
        'storage dtype, string keys of different widths) plus value columns; a seeded history of join_on_key in the shapes 1-1, n-n, 1-n, n-1 '
        '(chains and cycles arise), JoinLink add / remove through the data collection, update of key or value columns, removal of a dataset '
        'from the collection, and comparisons: a selection defined on one dataset (inequality on a value column, also empty and full) is '
        'evaluated on every dataset, with and without a view. Non-trivial: >=1 comparison went through a join. distinct_nontrivial counts '
        'distinct (join-shape multiset, graph shape [#tables, #joins, cyclic?], key-kind pair, path length, view?) fingerprints.')
EXPLANATION = ('Model: a row of D is selected iff its key (value / tuple / any-of, by join shape) equals by value a key of a row selected in the '
               'partner; where several partners (or several paths) could answer, the mask of any of them is accepted; if no chain of joins '
               'reaches a dataset that can evaluate the selection the outcome must be IncompatibleAttribute (also on cyclic join graphs, within '
               'the watchdog); after every call, also ones that raised, every dataset\'s guard flag is off.')
REAL = ['glue.core.joins.get_mask_with_key_joins', 'glue.core.data.Data.join_on_key / get_mask', 'glue.core.link_helpers.JoinLink', 'glue.core.link_manager',
        'glue.core.decorators.memoize']
STUB = ['uuid and identity-hash streams']
ASSUMPTIONS = ['selections are fresh InequalitySubsetState objects per comparison (C05 covers stale memo entries)',
               'numeric and string keys are never joined with each other', 'sampling, not proof']
PROBES = ['shape_1_1', 'shape_n_n', 'shape_1_n', 'shape_n_1', 'chain_len_ge_2', 'cyclic_graph', 'incompatible_on_cycle', 'several_partners_answer',
          'joinlink_added', 'joinlink_removed', 'key_updated', 'partner_removed_from_collection', 'mixed_numeric_dtype', 'mixed_string_width',
          'empty_selection', 'view_compare', 'big_tables', 'join_replaced', 'join_by_label', 'keys_beyond_2_53', 'mixed_byte_order', 'rejected_joinlink_removal']

WEIGHTS = {'join': 7, 'joinlink': 2, 'remove_joinlink': 1, 'remove_dead_joinlink': 0.8, 'upd': 2, 'remove': 0.5, 'compare': 7, 'failing_eval': 1.5}
KEYKINDS = ['int', 'float', 'sshort', 'slong']


def keycol(kind, vs, n, nkeys=5):
    rs = np.random.RandomState(vs)
    base = rs.randint(0, nkeys, size=n)
    if kind == 'int':
        return base.astype(np.int64)
    if kind == 'bigint':
        # 64-bit identifiers beyond the range in which doubles are exact
        return base.astype(np.int64) + 2 ** 53
    if kind == 'float':
        return base.astype(float)
    if kind in ('int_be', 'float_be', 'int32', 'float32'):
        # the same values in another storage layout: non-native byte order (as FITS readers deliver), narrower numbers
        return base.astype({'int_be': '>i8', 'float_be': '>f8', 'int32': np.int32, 'float32': np.float32}[kind])
    letters = [chr(97 + i) for i in range(max(5, nkeys))]
    if kind == 'sshort':
        return np.array(letters)[base]                                # <U1
    words = ['a', 'b', 'c', 'dd', 'eee'] + [l * (1 + i % 3) for i, l in enumerate(letters)][5:]    # ... fff g hh iii
    return np.array(words)[base]                                      # <U3 when a long one is present, else narrower


def generate(rng, cfg, guards):
    n = rng.randrange(4, cfg['max_ops'] + 1)
    nt = rng.randrange(2, 5)
    family = rng.pick(['num', 'num', 'str'])
    big = rng.chance(0.2)
    # (small tables only: on numpy's sort-based path np.isin itself mixes up int64 keys beyond 2**53 once a float column is involved)
    bigids = family == 'num' and not big and rng.chance(0.25)
    layouts = family == 'num' and not bigids and rng.chance(0.4)
    ops = []
    for i in range(nt):
        kinds = [rng.pick((['int', 'float'] if not bigids else ['bigint', 'bigint', 'float']) if family == 'num' else ['sshort', 'slong'])
                 for _ in range(rng.randrange(2, 4))]
        if layouts:
            kinds = [rng.pick({'int': ['int', 'int_be', 'int_be', 'int32'], 'float': ['float', 'float_be', 'float_be', 'float32']}[x]) for x in kinds]
        if 'C11-nn-mixed-storage' in guards:
            kinds = [kinds[0]] * len(kinds)
        # size knob: numpy switches membership algorithms with the sizes of the two key arrays (np.isin), so some runs use
        # tables of 40-160 rows with many duplicate keys
        if big:
            ops.append(['table', rng.randrange(40, 160), kinds, rng.randrange(10000), rng.pick([5, 8, 12])])
        else:
            ops.append(['table', rng.randrange(3, 8), kinds, rng.randrange(10000)])
    if 'C11-nn-mixed-storage' in guards:
        # all tables use one key storage type in runs that may build n-n joins
        k0 = ops[0][2][0]
        for o in ops:
            o[2] = [k0] * len(o[2])
    w = {}
    for k, v in sorted(WEIGHTS.items()):
        if k in ('join', 'compare') or rng.chance(0.75):
            w[k] = v * rng.pick([0.5, 1, 2])
    pairs = sorted(w.items())
    r8 = lambda: rng.randrange(8)
    while len(ops) < n:
        k = rng.wpick(pairs)
        if k == 'join':
            ops.append([k, r8(), r8(), rng.pick(['1-1', '1-1', 'n-n', '1-n', 'n-1']), [r8(), r8()], [r8(), r8()], rng.chance(0.35)])
        elif k == 'joinlink':
            ops.append([k, r8(), r8(), r8(), r8()])
        elif k in ('remove_joinlink', 'remove'):
            ops.append([k, r8()])
        elif k == 'remove_dead_joinlink':
            # a removal that must be rejected (or ignored): the link was removed before, or was never added; look at every join afterwards
            ops.append([k, r8(), r8(), r8()])
            ops.append(['compare', r8(), rng.pick([-1, 2, 5]), None])
        elif k == 'upd':
            ops.append([k, r8(), r8(), rng.randrange(10000)])
        elif k == 'failing_eval':
            ops.append([k, r8()])
        else:
            ops.append([k, r8(), rng.pick([-1, 2, 2, 5, 7, 20]), rng.pick([None, None, [0, 3, 1], [1, 4, 2]])])
    ops.append(['compare', 0, 2, None])
    return {'knobs': {'guards': list(guards), 'prop': PROP}, 'ops': ops}


def keys_equal(a, b):
    if isinstance(a, (str, np.str_)) or isinstance(b, (str, np.str_)):
        return str(a) == str(b)
    return float(a) == float(b)


def norm(x):
    if isinstance(x, (str, np.str_, bytes)):
        return ('s', str(x))
    # exact value: Python compares (and hashes) ints and floats by value, 2**53 + 1 stays different from 2**53
    return ('n', x.item() if hasattr(x, 'item') else x)


def execute(case, res):
    from glue.core.data import Data
    from glue.core.link_helpers import JoinLink
    from glue.core.subset import InequalitySubsetState
    from glue.core.exceptions import IncompatibleAttribute
    w = W.World(case['knobs'], res, None)
    dc = w.dc
    tables = []         # all tables (kept alive even when removed from the collection)
    joins = {}          # (i, j) -> (cols_i, cols_j) ; stored in both directions like glue does
    joinlinks = []
    kinds = {}
    nkeys = {}

    def kcols(i):
        return [c for c in tables[i].main_components if c.label.startswith('k')]

    def set_join(i, j, ci, cj):
        joins[(i, j)] = (ci, cj)
        joins[(j, i)] = (cj, ci)

    for op in case['ops']:
        k = op[0]
        res.nops += 1
        res.log.append([k])
        if k == 'table':
            d = Data(label='t%d' % len(tables))
            n = op[1]
            for j, kind in enumerate(op[2]):
                d.add_component(keycol(kind, op[3] + j, n, op[4] if len(op) > 4 else 5), 'k%d' % j)
            if n >= 40:
                res.probe('big_tables')
            d.add_component(W.values(op[3] + 9, (n,)), 'v')
            kinds[len(tables)] = op[2]
            nkeys[len(tables)] = op[4] if len(op) > 4 else 5
            tables.append(d)
            dc.append(d)
        elif k == 'join':
            i, j = op[1] % len(tables), op[2] % len(tables)
            if i == j:
                continue
            ki, kj = kcols(i), kcols(j)
            shape = op[3]
            if shape == '1-1':
                ci, cj = [ki[op[4][0] % len(ki)]], [kj[op[5][0] % len(kj)]]
            elif shape == 'n-n':
                ci, cj = ki[:2], kj[:2]
            elif shape == '1-n':
                ci, cj = [ki[op[4][0] % len(ki)]], kj[:2]
            else:
                ci, cj = ki[:2], [kj[op[5][0] % len(kj)]]
            if any(isinstance(l, JoinLink) and {l.data1, l.data2} == {tables[i], tables[j]} for l in joinlinks):
                continue
            if (i, j) in joins:
                res.probe('join_replaced')
            if len(op) > 6 and op[6]:
                # the key columns named by their labels, as a script would
                res.probe('join_by_label')
                a, b = [c.label for c in ci], [c.label for c in cj]
                tables[i].join_on_key(tables[j], tuple(a) if len(a) > 1 else a[0], tuple(b) if len(b) > 1 else b[0])
            else:
                tables[i].join_on_key(tables[j], tuple(ci) if len(ci) > 1 else ci[0], tuple(cj) if len(cj) > 1 else cj[0])
            set_join(i, j, tuple(ci), tuple(cj))
            res.probe({'1-1': 'shape_1_1', 'n-n': 'shape_n_n', '1-n': 'shape_1_n', 'n-1': 'shape_n_1'}[shape])
        elif k == 'joinlink':
            i, j = op[1] % len(tables), op[2] % len(tables)
            if i == j or (i, j) in joins or not (tables[i] in dc and tables[j] in dc):
                continue
            ki, kj = kcols(i), kcols(j)
            ci, cj = ki[op[3] % len(ki)], kj[op[4] % len(kj)]
            link = JoinLink(cids1=[ci], cids2=[cj], data1=tables[i], data2=tables[j])
            dc.add_link(link)
            joinlinks.append(link)
            set_join(i, j, (ci,), (cj,))
            res.probe('joinlink_added')
        elif k == 'remove_joinlink':
            live = [l for l in joinlinks if any(l is x for x in dc.external_links)]
            if not live:
                continue
            l = live[op[1] % len(live)]
            dc.remove_link(l)
            i, j = tables.index(l.data1), tables.index(l.data2)
            joins.pop((i, j), None)
            joins.pop((j, i), None)
            res.probe('joinlink_removed')
        elif k == 'remove_dead_joinlink':
            dead = [l for l in joinlinks if not any(l is x for x in dc.external_links)
                    and (tables.index(l.data1), tables.index(l.data2)) not in joins]
            if dead and op[1] % 2:
                l = dead[op[2] % len(dead)]
            else:
                i, j = op[2] % len(tables), op[3] % len(tables)
                if i == j or (i, j) in joins:
                    continue
                l = JoinLink(cids1=[kcols(i)[0]], cids2=[kcols(j)[0]], data1=tables[i], data2=tables[j])
            try:
                dc.remove_link(l)
            except Exception:
                res.fault('rejected_call')
            res.probe('rejected_joinlink_removal')
        elif k == 'upd':
            i = op[1] % len(tables)
            cs = list(tables[i].main_components)
            c = cs[op[2] % len(cs)]
            n = tables[i].shape[0]
            if c.label.startswith('k'):
                kind = kinds[i][int(c.label[1:])]
                tables[i].update_components({c: keycol(kind, op[3], n, nkeys.get(i, 5))})
                res.probe('key_updated')
            else:
                tables[i].update_components({c: W.values(op[3], (n,))})
        elif k == 'remove':
            live = [t for t in tables if t in dc]
            if len(live) > 1:
                t = live[op[1] % len(live)]
                # key joins are held by the datasets themselves and survive removal from the collection (a JoinLink has no
                # component links, so the link manager does not drop it either)
                dc.remove(t)
                res.probe('partner_removed_from_collection')
        elif k == 'failing_eval':
            # a selection whose evaluation fails inside the partner with something other than IncompatibleAttribute
            # (ordering comparison between numbers and text): the failure must not leave any trace behind
            src = tables[op[1] % len(tables)]
            kc = kcols(op[1] % len(tables))[0]
            bad = InequalitySubsetState(kc, 'text' if np.asarray(src[kc]).dtype.kind in 'if' else 1, operator.gt)
            for t in tables:
                if t is src:
                    continue
                try:
                    t.get_mask(bad)
                except Exception:
                    res.fault('evaluation_error_in_partner')
        elif k == 'compare':
            compare(tables, joins, kinds, op, res)
        for t in tables:
            if getattr(t, '_recursing', False):
                raise Violation('C11/guard-flag-left-on/%s' % k, 'dataset %s still marked as recursing after the call returned' % t.label)


def direct_mask(t, owner, thr):
    """Selection 'owner.v > thr' evaluated where it is defined."""
    return np.asarray(owner['v']) > thr


def candidates(tables, joins, i, src, sel_mask, stack):
    """All masks the relational definition allows for table i (set of tuples), [] if no chain of joins reaches src."""
    if i == src:
        return [tuple(bool(x) for x in sel_mask)]
    out = []
    for (a, b), (ca, cb) in joins.items():
        if a != i or b in stack:
            continue
        for pm in candidates(tables, joins, b, src, sel_mask, stack + [i]):
            pm = np.array(pm, dtype=bool)
            left = [np.asarray(tables[i][c]) for c in ca]
            right = [np.asarray(tables[b][c])[pm] for c in cb]
            n = tables[i].shape[0]
            if len(ca) == 1 and len(cb) == 1:
                rk = set(norm(x) for x in right[0])
                m = [norm(x) in rk for x in left[0]]
            elif len(ca) == len(cb):
                rk = set(tuple(norm(col[r]) for col in right) for r in range(len(right[0])))
                m = [tuple(norm(col[r]) for col in left) in rk for r in range(n)]
            elif len(ca) == 1:
                rk = set(norm(x) for col in right for x in col)
                m = [norm(x) in rk for x in left[0]]
            else:
                rk = set(norm(x) for x in right[0])
                m = [any(norm(col[r]) in rk for col in left) for r in range(n)]
            out.append(tuple(bool(x) for x in m))
    return out


def compare(tables, joins, kinds, op, res):
    from glue.core.subset import InequalitySubsetState
    from glue.core.exceptions import IncompatibleAttribute
    src = op[1] % len(tables)
    thr = op[2]
    owner = tables[src]
    vcid = owner.id['v']
    sel = direct_mask(owner, owner, thr)
    if not sel.any():
        res.probe('empty_selection')
    npairs = len(joins) // 2
    und = set(frozenset(k) for k in joins)
    cyclic = npairs >= len(set(x for k in joins for x in k)) and npairs >= 3
    if cyclic:
        res.probe('cyclic_graph')
    for i, t in enumerate(tables):
        state = InequalitySubsetState(vcid, thr, operator.gt)
        view = tuple([slice(op[3][0], op[3][0] + op[3][1], op[3][2])]) if op[3] else None
        cands = candidates(tables, joins, i, src, sel, [])
        try:
            got = np.asarray(t.get_mask(state, view=view), dtype=bool)
            ok = True
        except IncompatibleAttribute:
            ok = False
        res.nchecks += 1
        if any(getattr(x, '_recursing', False) for x in tables):
            raise Violation('C11/guard-flag-left-on/compare', 'a dataset is still marked as recursing after get_mask %s' % ('returned' if ok else 'raised'))
        if i == src:
            continue
        shapes = sorted(('%d-%d' % (len(a), len(b))) for (x, y), (a, b) in joins.items() if x < y)
        if not cands:
            if ok:
                raise Violation('C11/evaluated-without-join-path', 'table %d has no chain of joins to table %d but get_mask returned a mask' % (i, src))
            if cyclic:
                res.probe('incompatible_on_cycle')
            continue
        res.nontrivial = True
        if len(set(cands)) > 1:
            res.probe('several_partners_answer')
        kpair = sorted(set(kinds[i]) | set(kinds[src]))
        if len(set(kinds[i]) | set(kinds[src])) > 1:
            res.probe('mixed_numeric_dtype' if kpair[0] not in ('sshort', 'slong') else 'mixed_string_width')
            if any(x.endswith('_be') for x in kpair):
                res.probe('mixed_byte_order')
            if 'bigint' in kpair:
                res.probe('keys_beyond_2_53')
        res.fp(shapes, [len(tables), npairs, cyclic], kpair, min(pathlen(joins, i, src), 4), view is not None)
        if pathlen(joins, i, src) >= 2:
            res.probe('chain_len_ge_2')
        if view is not None:
            res.probe('view_compare')
        if not ok:
            raise Violation('C11/incompatible-despite-join-path/%s' % '+'.join(sorted(set(shapes))), 'table %d is joined (directly or through a chain) to table %d but get_mask raised IncompatibleAttribute' % (i, src))
        exp = [np.array(c, dtype=bool)[view] if view is not None else np.array(c, dtype=bool) for c in cands]
        if not any(got.shape == e.shape and np.array_equal(got, e) for e in exp):
            allk = sorted(set(x for v in kinds.values() for x in v))
            nn_mixed = '2-2' in shapes and len(allk) > 1
            raise Violation('C11/mask-differs-from-key-membership/%s/%s' % ('n-n-mixed-storage' if nn_mixed else 'other', '+'.join(allk)),
                            'table %d selection from table %d (v > %s): glue %s, allowed %s' % (i, src, thr, got.astype(int).tolist(),
                                                                                                [e.astype(int).tolist() for e in exp][:3]))
        res.log.append(['cmp', i, src, got.astype(int).tolist()])


def pathlen(joins, i, src):
    seen, frontier, n = {i}, [i], 0
    while frontier:
        if src in frontier:
            return n
        nxt = []
        for a in frontier:
            for (x, y) in joins:
                if x == a and y not in seen:
                    seen.add(y)
                    nxt.append(y)
        frontier = nxt
        n += 1
    return 99
