"""C18 - viewers and attribute pickers mirror the collection.

Engine E2, oracle (C).  Parties with their own lifetime - viewers (the generic state-based ``Viewer``
with ``ViewerState`` / ``LayerArtist``; the matplotlib viewers in the thorough tier), attribute pickers
(``ComponentIDComboHelper``), dataset pickers (``ManualDataComboHelper``, ``DataCollectionComboHelper``)
and image viewer states - are created before / after data, given datasets, and then the collection is
driven by the C06 / C17 vocabulary, with hub delay windows (K2), parties dropped without being closed
(K3: the hub holds them weakly) and crash-restart with the viewers saved (K5, through a stub
application shell that stores its viewer list the way glue-qt does).
"""
import gc
import os
import shutil
import tempfile
import warnings

import numpy as np

from sim.core import Violation
from sim import world as W
from sim import linkfuncs as LF

PROP = 'C18'
TIERS = {
    'quick': {'runs': 9600, 'blocks': 16, 'max_ops': 28, 'mpl': 0.0},
    'thorough': {'runs': 48000, 'blocks': 64, 'max_ops': 60, 'mpl': 0.04},
}
RULE = ('Each run: a seeded history over the collection (new / append / remove / re-append dataset, new / remove subset group, add stored or '
        'derived component, remove, rename, reorder component, dataset label) interleaved with viewer operations (new viewer, add data, add '
        'subset, remove data, close, drop without closing), attribute / dataset picker operations (new picker with kind filters, append / remove '
        'data, flip a filter, explicit selection, drop), image viewer state operations (new, add / remove layer, set axis or reference data), '
        'hub delay windows, collect, and restart with the viewers saved. Viewer classes: the generic Viewer in the quick tier; in the thorough '
        'tier 4% of runs use the matplotlib histogram / scatter / image / profile viewers on the Agg canvas. Non-trivial: >=1 party holding >=1 '
        'dataset was checked after >=1 collection mutation. distinct_nontrivial counts distinct (op kind, party kind, #datasets, #groups, '
        '#layers, filter vector, delay depth) fingerprints.')
EXPLANATION = ('Viewer: the layer objects of viewer.layers are exactly (each once) the datasets it was given that have stayed in the collection '
               'since, plus each of their current subsets; viewer.state.layers agrees; nothing refers to a removed dataset / subset / group. '
               'Attribute picker: choices without separators equal, per dataset in order, the main attributes of the enabled kinds, the derived '
               'ones (numeric and derived enabled), pixel and world ones if enabled, preceded by None if enabled; the selection is one of them, '
               'or None iff there is none. Dataset pickers: choices are the curated datasets still in the collection / exactly the collection. '
               'Image state: x and y are distinct pixel axes of the reference dataset, the world attributes correspond, the reference dataset is '
               'one of the dataset layers (None iff there is none). A dataset removed and re-added inside one delay window makes the expected '
               'layer set ambiguous: both outcomes are accepted.')
REAL = ['glue.viewers.common.viewer.Viewer', 'glue.viewers.common.state', 'glue.viewers.common.layer_artist', 'glue.core.layer_artist.LayerArtistContainer',
        'glue.core.data_combo_helper', 'glue.core.state_objects', 'glue.viewers.image.state', 'glue.viewers.{histogram,scatter,image,profile} (thorough tier)',
        'echo callback properties', 'glue.core.hub (weak listeners)', 'glue.core.state (restart)']
STUB = ['application shell that keeps and saves the viewer list (modelled on glue-qt; glue-core has none)', 'matplotlib Agg canvas', 'GC schedule']
ASSUMPTIONS = ['a user may remove a dataset\'s own layer alone (its subset layers then stay until the subsets disappear); subset layers are not removed one by one', 'oracle only at quiescence', 'sampling, not proof']
PROBES = ['viewer_before_data', 'subset_created_after_add', 'group_removed_with_viewer', 'data_removed_with_viewer', 'viewer_dropped_unclosed',
          'viewer_closed', 'picker_filter_flip', 'picker_no_choices', 'picker_component_removed', 'picker_data_removed', 'image_axis_set',
          'image_reference_changed', 'image_reference_removed', 'restart_with_viewers', 'readd_in_delay_window', 'mpl_viewer', 'explicit_selection', 'data_layer_removed_alone', 'identifier_rebound_to_other_kind', 'image_subset_layer', 'profile_layer_added', 'profile_state_emptied', 'viewer_given_removed_dataset', 'picker_datasets_replaced_in_one_call']

PROBES_THOROUGH_ONLY = ['mpl_viewer']

WEIGHTS = {'new': 2, 'append': 3, 'remove': 1.5, 'new_group': 2.5, 'remove_group': 1.5, 'add_comp': 1.5, 'add_derived': 1, 'remove_comp': 1, 'rebind_comp': 0.8,
           'rename': 0.7, 'reorder': 0.5, 'label': 0.5, 'v_new': 2, 'v_add': 4, 'v_add_gone': 0.8, 'v_add_subset': 1, 'v_remove': 1, 'v_remove_data_layer': 1, 'v_close': 0.5, 'v_drop': 0.5,
           'h_new': 2, 'h_append': 3, 'h_remove': 1, 'h_set_multiple': 2.5, 'h_filter': 2, 'h_select': 1.5, 'h_drop': 0.4, 'i_new': 1, 'i_add': 2, 'i_add_subset': 1, 'i_remove': 0.7, 'p_new': 0.6, 'p_add': 1.5, 'p_remove': 1,
           'i_set': 4, 'delay_open': 1, 'delay_close': 1.5, 'collect': 0.5, 'restart': 0.4}
FLAGS = ['numeric', 'categorical', 'pixel_coord', 'world_coord', 'derived', 'none']


def generate(rng, cfg, guards):
    n = rng.randrange(6, cfg['max_ops'] + 1)
    w = {}
    for k, v in sorted(WEIGHTS.items()):
        if k in ('new', 'append', 'v_new', 'v_add', 'h_new', 'h_append') or rng.chance(0.75):
            w[k] = v * rng.pick([0.5, 1, 2])
    mpl = rng.chance(cfg.get('mpl', 0.0))
    if mpl:
        n = min(n, 14)
        for k in ('h_new', 'i_new'):
            w.pop(k, None)
    pairs = sorted(w.items())
    r8 = lambda: rng.randrange(8)
    ops = []
    for i in range(rng.randrange(1, 3)):
        ops.append(['new', rng.pick([3, 4, 5, 6, 7, 0, 1]), rng.randrange(1, 3), rng.randrange(10000), rng.chance(0.5), rng.pick([0, 0, 1, 2])])
        if rng.chance(0.8):
            ops.append(['append', i])
    if rng.chance(0.7):
        ops.append(['v_new', rng.pick(['histogram', 'scatter', 'image', 'profile']) if mpl else 'generic'])
        ops.append(['v_add', 0, r8(), 0])
    if not mpl and rng.chance(0.6):
        ops.append(['h_new', rng.pick(['cid', 'cid', 'manual', 'dc']), [rng.chance(0.7), rng.chance(0.7), rng.chance(0.3), rng.chance(0.3), rng.chance(0.7), rng.chance(0.2)], rng.chance(0.8)])
        ops.append(['h_append', 0, r8()])
    if not mpl and rng.chance(0.3):
        ops.append(['i_new'])
        ops.append(['i_add', 0, r8()])
        if rng.chance(0.4):
            # the life of a reference dataset: shown with a subset, its own layer removed first, its subset layer later
            ops.append(['i_add', 0, r8()])
            ops.append(['new_group', W.gen_recipe(rng, 1, ['ineq', 'range', 'mask', 'empty'])])
            ops.append(['i_add_subset', 0, -2])
            ops.append(['i_remove', 0, -2])
            for _ in range(rng.randrange(0, 3)):
                ops.append(['i_set', 0, rng.pick(['x_att', 'y_att']), r8()])
            ops.append(['i_remove', 0, -3])
    if not mpl and rng.chance(0.2):
        # a profile viewer state that is emptied and given the same dataset again
        ops.append(['p_new'])
        ops.append(['p_add', 0, 0])
        ops.append(['p_remove', 0, 0])
        ops.append(['p_add', 0, rng.pick([0, 0, 1])])
    while len(ops) < n:
        k = rng.wpick(pairs)
        if k == 'new':
            ops.append(['new', rng.pick([3, 4, 5, 6, 7, 0, 1]), rng.randrange(1, 3), rng.randrange(10000), rng.chance(0.5), rng.pick([0, 0, 1, 2])])
        elif k in ('append', 'remove', 'remove_group', 'v_close', 'v_drop', 'h_drop', 'label'):
            ops.append([k, r8()])
        elif k == 'new_group':
            ops.append([k, W.gen_recipe(rng, 1, ['ineq', 'range', 'mask', 'empty'])])
        elif k == 'add_comp':
            ops.append([k, r8(), rng.randrange(10000)])
        elif k == 'add_derived':
            ops.append([k, r8(), r8(), rng.pick(sorted(LF.ONE))])
        elif k in ('remove_comp', 'rename'):
            ops.append([k, r8(), r8()])
        elif k == 'rebind_comp':
            ops.append([k, r8(), r8(), rng.randrange(10000)])
        elif k == 'reorder':
            ops.append([k, r8(), rng.randrange(1000)])
        elif k == 'v_new':
            ops.append([k, rng.pick(['histogram', 'scatter', 'image', 'profile']) if mpl else 'generic'])
        elif k in ('v_add', 'v_remove', 'v_add_subset', 'v_remove_data_layer', 'v_add_gone'):
            ops.append([k, r8(), r8(), r8()])
        elif k == 'h_new':
            ops.append([k, rng.pick(['cid', 'cid', 'cid', 'manual', 'dc']), [rng.chance(0.7), rng.chance(0.7), rng.chance(0.3), rng.chance(0.3), rng.chance(0.7), rng.chance(0.2)],
                        rng.chance(0.8)])
        elif k == 'h_set_multiple':
            ops.append([k, r8(), rng.randrange(1, 64)])
        elif k in ('h_append', 'h_remove'):
            ops.append([k, r8(), r8()])
        elif k == 'h_filter':
            ops.append([k, r8(), rng.randrange(len(FLAGS)), rng.chance(0.5)])
        elif k == 'h_select':
            ops.append([k, r8(), r8()])
        elif k == 'i_new':
            ops.append([k])
        elif k in ('i_add', 'i_remove', 'i_add_subset', 'p_add', 'p_remove'):
            ops.append([k, r8(), r8()])
        elif k == 'p_new':
            ops.append([k])
        elif k == 'i_set':
            ops.append([k, r8(), rng.pick(['x_att', 'y_att', 'x_att_world', 'y_att_world', 'reference_data']), r8()])
        elif k == 'delay_open':
            ops.append([k, 'hub'])
        elif k == 'delay_close':
            ops.append([k, rng.chance(0.15)])
        elif k == 'collect':
            ops.append([k])
        else:
            ops.append(['restart'])
    return {'knobs': {'guards': list(guards), 'prop': PROP, 'mpl': mpl}, 'ops': ops}


# ----------------------------------------------------------------------------- parties

_CLS = {}


def classes():
    if _CLS:
        return _CLS
    from glue.core.application_base import Application
    from glue.core.state_objects import State
    from echo import SelectionCallbackProperty
    from glue.viewers.common.viewer import Viewer

    class HState(State):
        sel = SelectionCallbackProperty()

    class SimViewer(Viewer):
        """The generic state-based viewer (what glue-jupyter / plugins build on)."""
        LABEL = 'sim viewer'

        def close(self, warn=False):
            self.cleanup()

    class SimApplication(Application):
        """Application shell that keeps a viewer list and saves / restores it the way glue-qt does."""

        def __init__(self, data_collection=None, session=None):
            Application.__init__(self, data_collection=data_collection, session=session)
            self._viewers = []

        def add_widget(self, viewer):
            self._viewers.append(viewer)

        @property
        def viewers(self):
            return [list(self._viewers)]

        def __gluestate__(self, context):
            state = Application.__gluestate__(self, context)
            state['viewers'] = [list(map(context.id, tab)) for tab in self.viewers]
            return state

        @classmethod
        def __setgluestate__(cls, rec, context):
            self = cls(data_collection=context.object(rec['data']))
            context.register_object(rec['session'], self.session)
            for tab in rec.get('viewers', []):
                for v in tab:
                    self._viewers.append(context.object(v))
            return self

    _CLS.update(HState=HState, SimViewer=SimViewer, SimApplication=SimApplication)
    return _CLS


# the stub classes must be importable by name for save/restore
def _export():
    c = classes()
    globals().update(c)
    for name in ('HState', 'SimViewer', 'SimApplication'):
        c[name].__module__ = __name__
        c[name].__qualname__ = name


class ViewWorld(W.World):
    def make_app(self, dc):
        _export()
        return classes()['SimApplication'](dc)


def viewer_class(kind):
    if kind == 'generic':
        return classes()['SimViewer']
    if kind == 'histogram':
        from glue.viewers.histogram.viewer import SimpleHistogramViewer as V
    elif kind == 'scatter':
        from glue.viewers.scatter.viewer import SimpleScatterViewer as V
    elif kind == 'image':
        from glue.viewers.image.viewer import SimpleImageViewer as V
    else:
        from glue.viewers.profile.viewer import SimpleProfileViewer as V
    return V


def expected_choices(datasets, flags):
    numeric, categorical, pixel, world, derived, none = flags
    out = [None] if none else []
    for d in datasets:
        for c in d.main_components:
            kind = d.get_kind(c)
            if (kind == 'numerical' and numeric) or (kind == 'categorical' and categorical) or kind == 'datetime':
                out.append(c)
        if numeric and derived:
            out.extend(c for c in d.derived_components if c.parent is d)
        if pixel:
            out.extend(d.pixel_component_ids)
        if world:
            out.extend(d.world_component_ids)
    return out


def execute(case, res):
    tmp = tempfile.mkdtemp(prefix='verif-c18-')
    try:
        with warnings.catch_warnings():
            warnings.simplefilter('ignore')
            _execute(case, res, tmp)
    finally:
        plt = __import__('sys').modules.get('matplotlib.pyplot')
        if plt is not None:
            plt.close('all')
        shutil.rmtree(tmp, ignore_errors=True)


def _execute(case, res, tmp):
    from glue.core.component_id import ComponentID
    from glue.core.component_link import ComponentLink
    from glue.core.data import BaseData
    from glue.core.data_combo_helper import ComponentIDComboHelper, ManualDataComboHelper, DataCollectionComboHelper
    from echo import ChoiceSeparator
    _export()
    w = ViewWorld(case['knobs'], res, tmp)
    HState = classes()['HState']
    viewers = []      # dict(v=viewer, given=[datasets], ambiguous=set(ids), kind=...)
    helpers = []      # dict(h=helper, state=..., kind=..., data=[...], flags=[...], dc=bool)
    images = []       # dict(state=ImageViewerState)
    profiles = []     # dict(state=ProfileViewerState)
    nname = [0]
    mutated = [False]
    in_window = {'removed': set()}

    def live(d):
        return any(d is x for x in w.dc)

    for op in case['ops']:
        k = op[0]
        res.nops += 1
        dc = w.dc
        res.log.append([k])
        try:
            if k == 'new':
                d = w.new_data(op[1], op[2], op[3], cat=op[4], coords=op[5])
            elif k == 'append':
                d = w.pick_pool(op[1])
                if d is not None:
                    if not live(d) and id(d) in in_window['removed'] and w.cms:
                        res.probe('readd_in_delay_window')
                        for v in viewers:
                            if any(d is g for g in v['given']):
                                v['ambiguous'].add(id(d))
                    dc.append(d)
                    mutated[0] = True
            elif k == 'remove':
                d = w.pick_data(op[1])
                if d is not None:
                    if any(any(d is g for g in v['given']) for v in viewers):
                        res.probe('data_removed_with_viewer')
                    if any(any(d is g for g in h['data']) for h in helpers):
                        res.probe('picker_data_removed')
                    if any(i['state'].reference_data is d for i in images):
                        res.probe('image_reference_removed')
                    dc.remove(d)
                    if w.cms:
                        in_window['removed'].add(id(d))
                    for v in viewers:
                        if id(d) not in v['ambiguous']:
                            v['given'] = [g for g in v['given'] if g is not d]
                    for h in helpers:
                        if h['dc']:
                            h['data'] = [g for g in h['data'] if g is not d]
                    mutated[0] = True
            elif k == 'new_group':
                if any(v['given'] for v in viewers):
                    res.probe('subset_created_after_add')
                dc.new_subset_group(subset_state=w.build_state(op[1]))
                mutated[0] = True
            elif k == 'remove_group':
                g = w.pick_group(op[1])
                if g is not None:
                    if any(v['given'] for v in viewers):
                        res.probe('group_removed_with_viewer')
                    dc.remove_subset_group(g)
                    mutated[0] = True
            elif k == 'add_comp':
                d = w.pick_data(op[1])
                if d is not None:
                    nname[0] += 1
                    d.add_component(W.values(op[2], d.shape), 'n%d' % nname[0])
                    mutated[0] = True
            elif k == 'add_derived':
                d = w.pick_data(op[1])
                if d is not None:
                    cs = [c for c in d.components if d.get_kind(c) == 'numerical']
                    nname[0] += 1
                    d.add_component_link(ComponentLink([cs[op[2] % len(cs)]], ComponentID('v%d' % nname[0], parent=d), using=LF.ONE[op[3]][0]))
                    mutated[0] = True
            elif k == 'remove_comp':
                d = w.pick_data(op[1])
                if d is not None:
                    cs = d.main_components + d.derived_components
                    c = cs[op[2] % len(cs)]
                    if c in d.main_components and len([x for x in d.main_components if d.get_kind(x) == 'numerical']) <= 1:
                        continue
                    if any(any(d is g for g in h['data']) for h in helpers):
                        res.probe('picker_component_removed')
                    d.remove_component(c)
                    mutated[0] = True
            elif k == 'rebind_comp':
                # the same identifier object is taken out and put back holding values of the other kind (numbers <-> text)
                d = w.pick_data(op[1])
                if d is not None:
                    mains = list(d.main_components)
                    c = mains[op[2] % len(mains)]
                    if any(any(c is f for f in d.get_component(x).link.get_from_ids()) for x in d.derived_components):
                        continue
                    if d.get_kind(c) == 'numerical':
                        if d.ndim != 1 or len([x for x in mains if d.get_kind(x) == 'numerical']) <= 1:
                            continue
                        vals = W.values(op[3], d.shape, 'cat')
                    else:
                        vals = W.values(op[3], d.shape)
                    d.remove_component(c)
                    d.add_component(vals, c)
                    res.probe('identifier_rebound_to_other_kind')
                    mutated[0] = True
            elif k == 'rename':
                d = w.pick_data(op[1])
                if d is not None:
                    cs = d.main_components + d.derived_components
                    nname[0] += 1
                    cs[op[2] % len(cs)].label = 'r%d' % nname[0]
            elif k == 'reorder':
                d = w.pick_data(op[1])
                if d is not None:
                    cs = list(d.components)
                    d.reorder_components([cs[i] for i in np.random.RandomState(op[2]).permutation(len(cs))])
                    mutated[0] = True
            elif k == 'label':
                d = w.pick_data(op[1])
                if d is not None:
                    nname[0] += 1
                    d.label = 'L%d' % nname[0]
            # ---- viewers
            elif k == 'v_new':
                if len(viewers) >= 3:
                    continue
                cls = viewer_class(op[1])
                v = w.app.new_data_viewer(cls)
                if op[1] != 'generic':
                    res.probe('mpl_viewer')
                if not len(dc):
                    res.probe('viewer_before_data')
                viewers.append({'v': v, 'given': [], 'ambiguous': set(), 'kind': op[1]})
            elif k == 'v_add':
                if not viewers:
                    continue
                v = viewers[op[1] % len(viewers)]
                d = w.pick_data(op[2])
                if d is None:
                    continue
                if v['kind'] == 'image' and d.ndim < 2:
                    continue
                if v['kind'] == 'image' and v['given'] and v['given'][0].ndim != d.ndim and False:
                    continue
                ok = v['v'].add_data(d)
                if ok and not any(d is g for g in v['given']):
                    v['given'].append(d)
                if ok:
                    v['orphans'] = [x for x in v.get('orphans', []) if x.data is not d]
                if w.cms and id(d) in in_window['removed']:
                    v['ambiguous'].add(id(d))       # its removal message is still queued and will reach this viewer too
            elif k == 'v_add_gone':
                # a rejected call (K4): the viewer is handed a dataset that has left the collection; whether it raises or
                # declines, nothing may remain of the attempt
                if not viewers or not w.quiescent():
                    continue
                v = viewers[op[1] % len(viewers)]
                gone = [d for d in w.pool if not any(d is x for x in w.dc) and getattr(d, 'hub', None) is not None]
                if not gone:
                    continue
                d = gone[op[2] % len(gone)]
                if v['kind'] == 'image' and d.ndim < 2:
                    continue
                try:
                    v['v'].add_data(d)
                except Exception:
                    pass
                res.fault('rejected_call')
                res.probe('viewer_given_removed_dataset')
            elif k == 'v_add_subset':
                if not viewers:
                    continue
                v = viewers[op[1] % len(viewers)]
                d = w.pick_data(op[2])
                if d is None or not d.subsets or not any(d is g for g in v['given']):
                    continue
                v['v'].add_subset(d.subsets[op[3] % len(d.subsets)])        # already there: must not create a duplicate
            elif k == 'v_remove':
                if not viewers:
                    continue
                v = viewers[op[1] % len(viewers)]
                if not v['given']:
                    continue
                d = v['given'][op[2] % len(v['given'])]
                v['v'].remove_data(d)
                v['given'] = [g for g in v['given'] if g is not d]
            elif k == 'v_remove_data_layer':
                if not viewers:
                    continue
                v = viewers[op[1] % len(viewers)]
                if not v['given'] or v['kind'] != 'generic':
                    continue
                d = v['given'][op[2] % len(v['given'])]
                # the user removes only the dataset's own layer: its subset layers stay until the subsets disappear
                v['v'].remove_layer(d)
                v['given'] = [g for g in v['given'] if g is not d]
                # ... those subset layers that exist: a subset whose creation is still queued in an open hub window has none
                # yet and gets none later (the viewer adds subset layers only for datasets it shows)
                shown = [la.layer for la in v['v'].layers]
                v.setdefault('orphans', []).extend(s_ for s_ in d.subsets if any(s_ is x for x in shown))
                res.probe('data_layer_removed_alone')
            elif k == 'v_close':
                if not viewers:
                    continue
                v = viewers.pop(op[1] % len(viewers))
                if v['kind'] != 'generic':
                    viewers.append(v)       # the non-Qt matplotlib viewers of glue-core do not implement close()
                    continue
                v['v'].close()
                if v['v'] in w.app._viewers:
                    w.app._viewers.remove(v['v'])
                res.probe('viewer_closed')
            elif k == 'v_drop':
                if not viewers:
                    continue
                v = viewers.pop(op[1] % len(viewers))
                if v['kind'] != 'generic':
                    viewers.append(v)
                    continue
                if v['v'] in w.app._viewers:
                    w.app._viewers.remove(v['v'])
                del v
                gc.collect()
                res.probe('viewer_dropped_unclosed')
                res.fault('party_death')
            # ---- pickers
            elif k == 'h_new':
                if len(helpers) >= 4:
                    continue
                st = HState()
                kind = op[1]
                if kind == 'cid':
                    f = op[2]
                    h = ComponentIDComboHelper(st, 'sel', data_collection=dc if op[3] else None, numeric=f[0], categorical=f[1],
                                               pixel_coord=f[2], world_coord=f[3], derived=f[4], none=f[5])
                elif kind == 'manual':
                    h = ManualDataComboHelper(st, 'sel', dc)
                else:
                    h = DataCollectionComboHelper(st, 'sel', dc)
                helpers.append({'h': h, 'state': st, 'kind': kind, 'data': [], 'flags': list(op[2]), 'dc': bool(op[3]) or kind != 'cid'})
            elif k == 'h_append':
                hs = [h for h in helpers if h['kind'] != 'dc']
                if not hs:
                    continue
                h = hs[op[1] % len(hs)]
                d = w.pick_data(op[2])
                if d is None:
                    continue
                h['h'].append_data(d)
                if not any(d is g for g in h['data']):
                    h['data'].append(d)
                if w.cms and id(d) in in_window['removed'] and h['dc']:
                    h.setdefault('ambiguous', set()).add(id(d))     # the queued removal message will reach this picker too
            elif k == 'h_remove':
                hs = [h for h in helpers if h['kind'] != 'dc' and h['data']]
                if not hs:
                    continue
                h = hs[op[1] % len(hs)]
                d = h['data'][op[2] % len(h['data'])]
                h['h'].remove_data(d)
                h['data'] = [g for g in h['data'] if g is not d]
            elif k == 'h_set_multiple':
                # the whole list of datasets replaced in one call (what a viewer state does when several layers leave at once)
                hs = [h for h in helpers if h['kind'] != 'dc' and len(h['data']) >= 2]
                if not hs:
                    continue
                h = hs[op[1] % len(hs)]
                keep = [d for i, d in enumerate(h['data']) if not (op[2] >> i) & 1]
                if len(keep) == len(h['data']):
                    keep = keep[:-2]        # two neighbours leave
                try:
                    h['h'].set_multiple_data(keep)
                except Exception as e:
                    if 'Cannot change data' in str(e):
                        continue
                    raise
                h['data'] = keep
                res.probe('picker_datasets_replaced_in_one_call')
            elif k == 'h_filter':
                hs = [h for h in helpers if h['kind'] == 'cid']
                if not hs:
                    continue
                h = hs[op[1] % len(hs)]
                setattr(h['h'], FLAGS[op[2]], op[3])
                h['flags'][op[2]] = op[3]
                res.probe('picker_filter_flip')
            elif k == 'h_select':
                if not helpers:
                    continue
                h = helpers[op[1] % len(helpers)]
                ch = [c for c in h['h'].choices if not isinstance(c, ChoiceSeparator)]
                if ch:
                    h['h'].selection = ch[op[2] % len(ch)]
                    res.probe('explicit_selection')
            elif k == 'h_drop':
                if not helpers:
                    continue
                h = helpers.pop(op[1] % len(helpers))
                del h
                gc.collect()
                res.fault('party_death')
            # ---- profile viewer state (state level, like the image viewer state below)
            elif k == 'p_new':
                if len(profiles) >= 2:
                    continue
                from glue.viewers.profile.state import ProfileViewerState
                profiles.append({'state': ProfileViewerState()})
            elif k == 'p_add':
                if not profiles or w.cms:
                    continue        # (state-level harness: not driven while removals are still queued in a hub window)
                from glue.viewers.profile.state import ProfileLayerState
                st = profiles[op[1] % len(profiles)]['state']
                d = w.pick_data(op[2])
                if d is None or any(ls.layer is d for ls in st.layers):
                    continue
                st.layers.append(ProfileLayerState(viewer_state=st, layer=d))
                res.probe('profile_layer_added')
            elif k == 'p_remove':
                if not profiles or w.cms:
                    continue
                st = profiles[op[1] % len(profiles)]['state']
                if st.layers:
                    st.layers.remove(st.layers[op[2] % len(st.layers)])
                    if not st.layers:
                        res.probe('profile_state_emptied')
            # ---- image viewer state
            elif k == 'i_new':
                if len(images) >= 2:
                    continue
                from glue.viewers.image.state import ImageViewerState
                images.append({'state': ImageViewerState()})
            elif k == 'i_add':
                if not images:
                    continue
                from glue.viewers.image.state import ImageLayerState
                st = images[op[1] % len(images)]['state']
                d = w.pick_data(op[2])
                if d is None or d.ndim < 2 or any(ls.layer is d for ls in st.layers):
                    continue
                st.layers.append(ImageLayerState(viewer_state=st, layer=d))
            elif k == 'i_add_subset':
                # a subset layer of a dataset that the image state shows (or showed: the data layer can be removed alone)
                if not images:
                    continue
                from glue.viewers.image.state import ImageSubsetLayerState
                st = images[op[1] % len(images)]['state']
                shown = [ls.layer for ls in st.layers if isinstance(ls.layer, BaseData)]
                subs = [s_ for d_ in shown for s_ in d_.subsets if not any(ls.layer is s_ for ls in st.layers)]
                if op[2] == -2:
                    subs = [s_ for s_ in subs if s_.data is st.reference_data]
                if not subs:
                    continue
                st.layers.append(ImageSubsetLayerState(viewer_state=st, layer=subs[op[2] % len(subs)]))
                res.probe('image_subset_layer')
            elif k == 'i_remove':
                if not images:
                    continue
                st = images[op[1] % len(images)]['state']
                if st.layers:
                    ls = st.layers[op[2] % len(st.layers)]
                    if op[2] == -2:         # the reference dataset's own layer
                        cand = [x for x in st.layers if x.layer is st.reference_data]
                        if not cand:
                            continue
                        ls = cand[0]
                    elif op[2] == -3:       # a subset layer of the reference dataset
                        cand = [x for x in st.layers if not isinstance(x.layer, BaseData) and x.layer.data is st.reference_data]
                        if not cand:
                            continue
                        ls = cand[0]
                    if ls.layer is st.reference_data:
                        res.probe('image_reference_removed')
                    st.layers.remove(ls)
            elif k == 'i_set':
                if not images:
                    continue
                st = images[op[1] % len(images)]['state']
                ref = st.reference_data
                if ref is None:
                    continue
                if op[3] % 3 == 0 and op[2] != 'reference_data':
                    # put this axis where the other one is: the state has to move the other axis away
                    other = {'x_att': 'y_att', 'y_att': 'x_att', 'x_att_world': 'y_att_world', 'y_att_world': 'x_att_world'}[op[2]]
                    setattr(st, op[2], getattr(st, other))
                    res.probe('image_axis_set')
                elif op[2] in ('x_att', 'y_att'):
                    setattr(st, op[2], ref.pixel_component_ids[op[3] % ref.ndim])
                    res.probe('image_axis_set')
                elif op[2] in ('x_att_world', 'y_att_world'):
                    ids = ref.world_component_ids if ref.coords is not None else ref.pixel_component_ids
                    setattr(st, op[2], ids[op[3] % ref.ndim])
                    res.probe('image_axis_set')
                else:
                    ds = [ls.layer for ls in st.layers if isinstance(ls.layer, BaseData)]
                    if ds:
                        st.reference_data = ds[op[3] % len(ds)]
                        res.probe('image_reference_changed')
            elif k == 'restart':
                if w.cms or any(v['kind'] != 'generic' for v in viewers):
                    continue
                if viewers:
                    res.probe('restart_with_viewers')
                given = [[next(i for i, x in enumerate(dc) if x is g) for g in v['given'] if live(g)] for v in viewers]
                orph = [[(next(i for i, x in enumerate(dc) if x is o.data), list(o.data.subsets).index(o)) for o in v.get('orphans', [])
                         if live(o.data) and any(o is y for y in o.data.subsets)] for v in viewers]
                path = w.save(include_data=True)
                del viewers[:]
                del helpers[:]
                del images[:]
                del profiles[:]
                app = w.restore(path)
                w.rebind(app)
                res.fault('crash_restart')
                dc = w.dc
                for v, idxs, os_ in zip(app._viewers, given, orph):
                    viewers.append({'v': v, 'given': [dc[i] for i in idxs], 'ambiguous': set(), 'kind': 'generic',
                                    'orphans': [dc[i].subsets[j] for i, j in os_]})
                if len(app._viewers) != len(given):
                    raise Violation('C18/viewers-lost-in-restart', '%d viewers saved, %d restored' % (len(given), len(app._viewers)))
            else:
                out = W.exec_common(w, op)
                if out is None:
                    raise ValueError(op)
        except W.OpCrash as e:
            raise Violation('C18/crash/%s:%s' % (k, type(e.exc).__name__), str(e))
        except Violation:
            raise
        except Exception as e:
            import traceback
            fr = [f for f in traceback.extract_tb(e.__traceback__) if '/glue/' in f.filename]
            loc = '%s:%s' % (os.path.basename(fr[-1].filename), fr[-1].name) if fr else 'harness'
            if not fr:
                raise
            raise Violation('C18/crash/%s:%s@%s' % (k, type(e).__name__, loc), '%s raised %s: %s' % (k, type(e).__name__, str(e)[:300]))
        if not w.quiescent():
            continue
        in_window['removed'].clear()
        check(w, viewers, helpers, images, res, k, mutated[0], profiles)
        for v in viewers:
            if v['ambiguous']:
                # both outcomes were acceptable: from here on the model follows the one that happened
                layers = [a.layer for a in v['v'].layers]
                v['given'] = [g for g in v['given'] if id(g) not in v['ambiguous'] or any(g is x for x in layers)]
            v['ambiguous'].clear()


def check(w, viewers, helpers, images, res, k, mutated, profiles=()):
    from echo import ChoiceSeparator
    from glue.core.data import BaseData
    dc = w.dc
    live = list(dc)
    for v in viewers:
        exp = []
        maybe = []
        for d in v['given']:
            if any(d is x for x in live):
                tgt = maybe if id(d) in v['ambiguous'] else exp
                tgt.append(d)
                tgt.extend(d.subsets)
        v['orphans'] = [x for x in v.get('orphans', []) if any(x.data is d for d in live) and any(x is y for y in x.data.subsets)]
        exp.extend(v['orphans'])
        got = [a.layer for a in v['v'].layers]
        got_state = [ls.layer for ls in v['v'].state.layers]
        res.nchecks += 1
        if v['given'] and mutated:
            res.nontrivial = True
        res.fp(k, v['kind'], len(live), len(dc.subset_groups), len(got), len(w.cms))
        for name, lst in (('viewer.layers', got), ('viewer.state.layers', got_state)):
            for i, x in enumerate(lst):
                if any(x is y for y in lst[:i]):
                    raise Violation('C18/duplicate-layer/%s' % k, '%s holds two layers for %s' % (name, getattr(x, 'label', x)))
            for x in exp:
                if not any(x is y for y in lst):
                    raise Violation('C18/layer-missing/%s' % k, '%s has no layer for %s %s' % (name, type(x).__name__, getattr(x, 'label', '')))
            for x in lst:
                if not any(x is y for y in exp) and not any(x is y for y in maybe):
                    what = 'a dataset that is not in the collection' if isinstance(x, BaseData) and not any(x is d for d in live) else \
                        'something it was not given or that no longer exists'
                    raise Violation('C18/stale-layer/%s' % k, '%s still holds a layer for %s (%s %s)' % (name, what, type(x).__name__, getattr(x, 'label', '')))
    for h in helpers:
        ch = [c for c in h['h'].choices if not isinstance(c, ChoiceSeparator)]
        amb = h.pop('ambiguous', None)
        if amb:
            # a dataset removed and re-added inside one delay window: the picker may or may not have kept it; follow what happened
            held = getattr(h['h'], '_data', None) if h['kind'] == 'cid' else getattr(h['h'], '_datasets', None)
            h['data'] = [d for d in h['data'] if id(d) not in amb or (held is not None and any(d is x for x in held))]
        if h['kind'] == 'cid':
            exp = expected_choices([d for d in h['data']], h['flags'])
        elif h['kind'] == 'manual':
            exp = [d for d in h['data'] if any(d is x for x in live)]
        else:
            exp = live
        res.nchecks += 1
        if h['data'] and mutated:
            res.nontrivial = True
        res.fp(k, h['kind'], len(live), len(exp), tuple(h['flags']) if h['kind'] == 'cid' else None, len(w.cms))
        if h['kind'] == 'cid' and not h['data'] and ch in ([], [None]):
            continue        # a picker without datasets offers nothing (the optional None entry appears with the first refresh)
        if len(ch) != len(exp) or any(a is not b for a, b in zip(ch, exp)):
            raise Violation('C18/picker-choices-differ/%s/%s' % (h['kind'], k), 'offers %s, expected %s' % (
                [getattr(c, 'label', c) for c in ch], [getattr(c, 'label', c) for c in exp]))
        sel = h['h'].selection
        if not exp:
            res.probe('picker_no_choices')
            if sel is not None:
                raise Violation('C18/picker-selection-without-choices/%s/%s' % (h['kind'], k), 'selection %r' % (sel,))
        elif not any(sel is c for c in exp):
            raise Violation('C18/picker-selection-not-offered/%s/%s' % (h['kind'], k), 'selection %s not among %s' % (
                getattr(sel, 'label', sel), [getattr(c, 'label', c) for c in exp]))
    for pr in profiles:
        st = pr['state']
        ds = []
        for ls in st.layers:
            d_ = ls.layer if isinstance(ls.layer, BaseData) else ls.layer.data
            if not any(d_ is x for x in ds):
                ds.append(d_)
        ref = st.reference_data
        res.nchecks += 1
        if not ds:
            if ref is not None:
                raise Violation('C18/profile-reference-without-layers/%s' % k, 'reference data %s but no layer' % ref.label)
            continue
        if ref is None or not any(ref is d for d in ds):
            raise Violation('C18/profile-reference-not-a-layer/%s' % k, 'reference data %s, layers %s' % (getattr(ref, 'label', None), [d.label for d in ds]))
        axes = list(ref.pixel_component_ids) + list(ref.world_component_ids)
        if st.x_att is None or not any(st.x_att is a for a in axes):
            raise Violation('C18/profile-axis-not-of-reference/%s' % k, 'x_att %s, reference %s' % (getattr(st.x_att, 'label', None), ref.label))
    for im in images:
        st = im['state']
        # the datasets the state represents: through their own layer or through a layer of one of their subsets
        ds = []
        for ls in st.layers:
            d_ = ls.layer if isinstance(ls.layer, BaseData) else ls.layer.data
            if not any(d_ is x for x in ds):
                ds.append(d_)
        ref = st.reference_data
        res.nchecks += 1
        res.fp(k, 'image', len(ds), ref.ndim if ref is not None else None, len(w.cms))
        if not ds:
            if ref is not None:
                raise Violation('C18/image-reference-without-layers/%s' % k, 'reference data %s but no dataset layer' % ref.label)
            continue
        if ref is None or not any(ref is d for d in ds):
            raise Violation('C18/image-reference-not-a-layer/%s' % k, 'reference data %s, layers %s' % (getattr(ref, 'label', None), [d.label for d in ds]))
        x, y = st.x_att, st.y_att
        pix = list(ref.pixel_component_ids)
        if x is None or y is None or not any(x is p for p in pix) or not any(y is p for p in pix):
            raise Violation('C18/image-axes-not-of-reference/%s' % k, 'x %s y %s reference %s' % (getattr(x, 'label', None), getattr(y, 'label', None), ref.label))
        if x is y:
            raise Violation('C18/image-axes-equal/%s' % k, 'x and y are both %s' % x.label)
        wx, wy = st.x_att_world, st.y_att_world
        if ref.coords is not None:
            ex, ey = ref.world_component_ids[x.axis], ref.world_component_ids[y.axis]
        else:
            ex, ey = x, y
        if wx is not ex or wy is not ey:
            raise Violation('C18/image-world-axes-mismatch/%s' % k, 'x %s/%s y %s/%s' % (x.label, getattr(wx, 'label', None), y.label, getattr(wy, 'label', None)))
