"""C01 - selections form a faithful Boolean algebra over membership masks.

Engine E2.  What the simulator varies: the *history* around the algebra - how often, in which order
and under which views sub-expressions, copies and whole trees were evaluated before and after they
were combined (the process-wide memo), operand aliasing (existing state objects are combined, copied
and re-read), and edit-mode sequences applied through EditSubsetMode to one or two edit subsets.
Oracle (A): numpy algebra folded over the recipe tree, leaf masks taken from freshly built (cold) leaf states.
"""
import operator

import numpy as np

from sim.core import Violation
from sim import world as W

PROP = 'C01'
TIERS = {
    'quick': {'runs': 4800, 'blocks': 16, 'max_ops': 26},
    'thorough': {'runs': 96000, 'blocks': 64, 'max_ops': 60},
}
RULE = ('Each run is one seeded history over 1-3 datasets (1-3-d; float values with NaN/inf, categorical on 1-d, derived, pixel and world '
        'attributes): new group from a generated expression tree (leaves: inequality, range, multi-range, ROI on two attributes, '
        'categorical ROI, category, mask, slice, element, empty; nodes: and/or/xor/not/many-way or; depth <= 3), combine two existing '
        'group states with & | ^, invert, many-way or of existing states, copy, apply a new selection through EditSubsetMode in mode '
        'Replace/And/Or/Xor/AndNot/New on the current edit subsets, change the edit-subset choice; reads of whole trees, of operand '
        'sub-states and of copies, repeated, with and without views; 1-3 checkpoints. Non-trivial: a checkpoint compared a composite '
        '(non-leaf) expression on >=1 dataset. distinct_nontrivial counts distinct (expected-tree shape, leaf-kind multiset, #reads before, '
        'dataset ndim) fingerprints at comparisons.')
EXPLANATION = ('Expected mask of a group = fold of numpy &,|,^,~ over its recipe tree (tracked by the harness through combine / invert / '
               'edit-mode operations), leaves evaluated on freshly built leaf states; any incompatible leaf makes the whole expression '
               'incompatible. Compared for every group on every dataset: full mask (bool, dataset shape), the same under slice views, the '
               'masks of operand state objects after they were combined / copied / evaluated (operands must be unaltered).')
REAL = ['glue.core.subset (all SubsetState classes, operators, memoised to_mask)', 'glue.core.edit_subset_mode', 'glue.core.subset_group',
        'glue.core.data_collection', 'glue.core.component_id', 'glue.core.roi']
STUB = ['uuid and identity-hash streams']
ASSUMPTIONS = ['leaf masks come from glue itself (fresh objects): this check decides the algebra and its independence from evaluation history, '
               'not the meaning of each leaf kind (C08/C09 are input-space properties, not applicable to this technique)',
               'views are tuples of positive-step slices only (C04 covers the view domain)', 'sampling, not proof']
PROBES = ['operand_reread_after_combine', 'multior_of_existing', 'edit_mode_and', 'edit_mode_or', 'edit_mode_xor', 'edit_mode_andnot',
          'edit_mode_new', 'two_edit_subsets', 'same_state_object_applied_again', 'incompatible_expected', 'view_compare', 'nan_inf_data', 'depth_ge_3', 'copy_compared', 'list_and_tuple_views']

KINDS = ['ineq', 'range', 'mrange', 'roi', 'mask', 'slice', 'elem', 'catroi', 'cat', 'empty', 'ineq2', 'roind', 'roi3d']
WEIGHTS = {'new_group': 4, 'combine': 5, 'invert': 2, 'multior': 2, 'copy': 1.5, 'apply': 5, 'set_edit': 1.5, 'set_state': 1,
           'read': 8, 'read_sub': 3, 'check': 1.5, 'new': 0.7, 'append': 0.7, 'add_derived': 0.5}
VIEWS = [None, None, [[0, 3, 1]], [[1, 4, 2]], [[0, 2, 1], [0, 2, 1]], [[0, 5, 2], [1, 2, 1], [0, 3, 2]]]
MODES = ['ReplaceMode', 'AndMode', 'OrMode', 'XorMode', 'AndNotMode', 'NewMode']


def generate(rng, cfg, guards):
    n = rng.randrange(5, cfg['max_ops'] + 1)
    w = {}
    for k, v in sorted(WEIGHTS.items()):
        if k in ('new_group', 'read', 'check', 'combine') or rng.chance(0.75):
            w[k] = v * rng.pick([0.5, 1, 2])
    pairs = sorted(w.items())
    r8 = lambda: rng.randrange(8)
    ops = []
    nd = rng.randrange(1, 3)
    for i in range(nd):
        ops.append(['new', rng.randrange(len(W.SHAPES)), rng.randrange(1, 3), rng.randrange(10000), rng.chance(0.5), rng.pick([0, 0, 1, 2]),
                    rng.chance(0.5)])
        ops.append(['append', i])
    ops.append(['new_group', W.gen_recipe(rng, 2, KINDS)])
    while len(ops) < n:
        k = rng.wpick(pairs)
        if k == 'new':
            ops.append(['new', rng.randrange(len(W.SHAPES)), rng.randrange(1, 3), rng.randrange(10000), rng.chance(0.5), rng.pick([0, 0, 1, 2]),
                        rng.chance(0.5)])
        elif k == 'append':
            ops.append([k, r8()])
        elif k == 'add_derived':
            ops.append([k, r8(), r8(), rng.pick(['mul2', 'add3', 'neg'])])
        elif k == 'new_group':
            ops.append([k, W.gen_recipe(rng, rng.pick([1, 2, 3]), KINDS)])
            if rng.chance(0.2):
                # a selection replaced by one that differs from it in a single operand (a number <-> another attribute)
                d_, c_, o_ = r8(), r8(), rng.randrange(6)
                pair = [['ineq', d_, c_, o_, rng.randrange(-3, 12) + 0.5], ['ineq2', d_, c_, o_, r8()]]
                if rng.chance(0.5):
                    pair.reverse()
                ops[-1] = [k, pair[0]]
                ops.append(['set_edit', [-1]])
                ops.append(['apply', pair[1], 0, False])
        elif k == 'set_state':
            ops.append([k, r8(), W.gen_recipe(rng, 2, KINDS)])
        elif k == 'combine':
            ops.append([k, r8(), r8(), rng.pick(['and', 'or', 'xor'])])
        elif k in ('invert', 'copy'):
            ops.append([k, r8()])
        elif k == 'multior':
            ops.append([k, [r8() for _ in range(rng.randrange(1, 4))]])
        elif k == 'apply':
            ops.append([k, W.gen_recipe(rng, 1, KINDS), rng.randrange(len(MODES)), False])
            while rng.chance(0.2):
                # the same selection object applied again (same or another mode), as repeating a gesture does
                ops.append([k, None, rng.pick([ops[-1][2], ops[-1][2], rng.randrange(len(MODES))]), True])
        elif k == 'set_edit':
            ops.append([k, [r8() for _ in range(rng.randrange(0, 3))]])
        elif k == 'read':
            ops.append([k, r8(), r8(), rng.randrange(len(VIEWS)), rng.randrange(1, 4)])
        elif k == 'read_sub':
            ops.append([k, r8(), r8(), [rng.randrange(2) for _ in range(rng.randrange(1, 3))]])
        else:
            ops.append(['check'])
    ops.append(['check'])
    return {'knobs': {'guards': list(guards), 'prop': PROP}, 'ops': ops}


def depth(t):
    k = t[0]
    if k in ('and', 'or', 'xor'):
        return 1 + max(depth(t[1]), depth(t[2]))
    if k == 'not':
        return 1 + depth(t[1])
    if k == 'multior':
        return 1 + max(depth(x) for x in t[1])
    return 0


def shape_of(t):
    k = t[0]
    if k in ('and', 'or', 'xor'):
        return [k, shape_of(t[1]), shape_of(t[2])]
    if k == 'not':
        return [k, shape_of(t[1])]
    if k == 'multior':
        return [k, len(t[1])]
    return 'L'


def leaves(t, out):
    k = t[0]
    if k in ('and', 'or', 'xor'):
        leaves(t[1], out)
        leaves(t[2], out)
    elif k == 'not':
        leaves(t[1], out)
    elif k == 'multior':
        for x in t[1]:
            leaves(x, out)
    else:
        out.append(k)
    return out


class Incompat(Exception):
    pass


def fold(w, t, d, cache):
    """Expected mask of recipe tree t on dataset d; leaves from fresh (cold) leaf states."""
    key = repr(t)
    if key in cache:
        return cache[key]
    k = t[0]
    if k in ('and', 'or', 'xor'):
        a, b = fold(w, t[1], d, cache), fold(w, t[2], d, cache)
        r = {'and': np.logical_and, 'or': np.logical_or, 'xor': np.logical_xor}[k](a, b)
    elif k == 'not':
        r = np.logical_not(fold(w, t[1], d, cache))
    elif k == 'multior':
        r = np.zeros(d.shape, dtype=bool)
        for x in t[1]:
            r = np.logical_or(r, fold(w, x, d, cache))
    else:
        st, m = W.mask_of(d, w.build_leaf(t))
        if st != 'ok':
            raise Incompat(st)
        r = np.array(np.broadcast_to(m, d.shape), dtype=bool)
        if k == 'mrange':
            # a many-range selection is the 'or' of its ranges, each evaluated as a selection of its own
            u = np.zeros(d.shape, dtype=bool)
            for lo, hi in t[3]:
                s1, m1 = W.mask_of(d, w.build_leaf(['range', t[1], t[2], lo, hi]))
                if s1 == 'ok':
                    u |= np.broadcast_to(m1, d.shape)
            if not np.array_equal(u, r):
                raise Violation('C01/many-range-selection-differs-from-or-of-its-ranges', 'pairs %s: %s vs %s' % (
                    t[3], r.ravel()[:10].astype(int).tolist(), u.ravel()[:10].astype(int).tolist()))
    cache[key] = r
    return r


class AlgebraWorld(W.World):
    def __init__(self, knobs, res):
        W.World.__init__(self, knobs, res, None)
        self.exp = {}        # id(group) -> expected recipe tree (recipes with resolved handles)
        self.groups = []     # keep groups alive / ordered
        self.nreads = 0
        self.nv = 0

    def resolve(self, r):
        """Freeze symbolic handles of a recipe against the current collection (so the expected tree keeps
        meaning the same attributes when datasets are appended later)."""
        k = r[0]
        if k in ('and', 'or', 'xor'):
            return [k, self.resolve(r[1]), self.resolve(r[2])]
        if k == 'not':
            return [k, self.resolve(r[1])]
        if k == 'multior':
            return [k, [self.resolve(x) for x in r[1]]]
        if k == 'empty' or not len(self.dc):
            return ['empty']
        n = len(self.dc)
        out = list(r)
        out[1] = r[1] % n
        d = self.dc[out[1]]
        if k in ('ineq', 'range', 'mrange'):
            cids = self.cids_of(d, True)
            out[2] = r[2] % len(cids)
        elif k == 'ineq2':
            cids = self.cids_of(d, True)
            out[2], out[4] = r[2] % len(cids), r[4] % len(cids)
        elif k in ('roi', 'roind'):
            cids = self.cids_of(d, True)
            out[2], out[3] = r[2] % len(cids), r[3] % len(cids)
        elif k == 'roi3d':
            cids = self.cids_of(d, True)
            out[2], out[3], out[4] = r[2] % len(cids), r[3] % len(cids), r[4] % len(cids)
        return out

    def build_leaf(self, r):
        return self.build_state(r)


def execute(case, res):
    from glue.core import subset as S
    from glue.core import edit_subset_mode as E
    from glue.core.component_id import ComponentID
    from glue.core.component_link import ComponentLink
    from sim import linkfuncs as LF
    w = AlgebraWorld(case['knobs'], res)
    dc = w.dc
    esm = w.session.edit_subset_mode
    last_applied = [None, None]

    def exp_of(g):
        return w.exp.get(id(g))

    def new_group(state, tree):
        g = dc.new_subset_group(subset_state=state)
        w.exp[id(g)] = tree
        w.groups.append(g)
        return g

    for op in case['ops']:
        k = op[0]
        res.nops += 1
        if k == 'new':
            d = w.new_data(op[1], op[2], op[3], cat=op[4], coords=op[5], special=op[6])
            if op[6]:
                res.probe('nan_inf_data')
        elif k == 'append':
            d = w.pick_pool(op[1])
            if d is not None:
                dc.append(d)
        elif k == 'add_derived':
            d = w.pick_data(op[1])
            if d is not None:
                src = w.pick_cid(d, op[2], True)
                w.nv += 1
                d.add_component_link(ComponentLink([src], ComponentID('v%d' % w.nv, parent=d), using=LF.ONE[op[3]][0]))
        elif k == 'new_group':
            t = w.resolve(op[1])
            new_group(w.build_state(t), t)
        elif k == 'set_state':
            g = w.pick_group(op[1])
            if g is not None:
                t = w.resolve(op[2])
                g.subset_state = w.build_state(t)
                w.exp[id(g)] = t
        elif k == 'combine':
            g1, g2 = w.pick_group(op[1]), w.pick_group(op[2])
            if g1 is not None and depth(exp_of(g1)) < 5 and depth(exp_of(g2)) < 5:
                f = {'and': operator.and_, 'or': operator.or_, 'xor': operator.xor}[op[3]]
                # operands are the live state objects of two groups (aliasing): combining must not alter them
                new_group(f(g1.subset_state, g2.subset_state), [op[3], exp_of(g1), exp_of(g2)])
                res.probe('operand_reread_after_combine')
        elif k == 'invert':
            g = w.pick_group(op[1])
            if g is not None and depth(exp_of(g)) < 5:
                new_group(~g.subset_state, ['not', exp_of(g)])
        elif k == 'multior':
            gs = [w.pick_group(i) for i in op[1]]
            if gs and gs[0] is not None and all(depth(exp_of(g)) < 5 for g in gs):
                new_group(S.MultiOrState([g.subset_state for g in gs]), ['multior', [exp_of(g) for g in gs]])
                res.probe('multior_of_existing')
        elif k == 'copy':
            g = w.pick_group(op[1])
            if g is not None:
                new_group(g.subset_state.copy(), exp_of(g))
                res.probe('copy_compared')
        elif k == 'set_edit':
            gs = dc.subset_groups
            esm.edit_subset = [gs[i % len(gs)] for i in op[1]] if gs else []
        elif k == 'apply':
            again = len(op) > 3 and op[3]
            if again and last_applied[0] is None:
                continue
            t = last_applied[1] if again else w.resolve(op[1])
            mode = MODES[op[2] % len(MODES)]
            targets = [g for g in (esm.edit_subset or []) if any(g is x for x in dc.subset_groups)]
            stale = [g for g in (esm.edit_subset or []) if not any(g is x for x in dc.subset_groups)]
            if stale or any(depth(exp_of(g)) >= 5 for g in targets):
                continue
            if len(targets) != len(set(id(g) for g in targets)):
                continue
            before = len(dc.subset_groups)
            if again:
                new_state = last_applied[0]
                res.probe('same_state_object_applied_again')
            else:
                new_state = w.build_state(t)
                last_applied[:] = [new_state, t]
            esm.update(dc, new_state, override_mode=getattr(E, mode))
            if not targets or mode == 'NewMode':
                if len(dc.subset_groups) != before + 1:
                    raise Violation('C01/edit-mode-new-did-not-create-group/%s' % mode, '')
                g = dc.subset_groups[-1]
                w.exp[id(g)] = t
                w.groups.append(g)
                res.probe('edit_mode_new')
            else:
                if len(targets) > 1:
                    res.probe('two_edit_subsets')
                for g in targets:
                    old = exp_of(g)
                    if mode == 'ReplaceMode':
                        w.exp[id(g)] = t
                    elif mode == 'AndMode':
                        w.exp[id(g)] = ['and', t, old]
                        res.probe('edit_mode_and')
                    elif mode == 'OrMode':
                        w.exp[id(g)] = ['or', t, old]
                        res.probe('edit_mode_or')
                    elif mode == 'XorMode':
                        w.exp[id(g)] = ['xor', t, old]
                        res.probe('edit_mode_xor')
                    elif mode == 'AndNotMode':
                        w.exp[id(g)] = ['and', old, ['not', t]]
                        res.probe('edit_mode_andnot')
        elif k == 'read':
            d, g = w.pick_data(op[1]), w.pick_group(op[2])
            if d is not None and g is not None:
                v = VIEWS[op[3] % len(VIEWS)]
                view = tuple(slice(a, a + b, c) for a, b, c in v)[:d.ndim] if v else None
                for _ in range(op[4]):
                    W.mask_of_view(d, g.subset_state, view)
                w.nreads += 1
        elif k == 'read_sub':
            d, g = w.pick_data(op[1]), w.pick_group(op[2])
            if d is not None and g is not None:
                st = g.subset_state
                for step in op[3]:
                    kids = [x for x in (getattr(st, 'state1', None), getattr(st, 'state2', None)) if x is not None]
                    kids += list(getattr(st, 'states', []))
                    if not kids:
                        break
                    st = kids[step % len(kids)]
                W.mask_of(d, st)
                w.nreads += 1
        elif k == 'check':
            compare(w, res)
        res.log.append([k, len(dc), len(dc.subset_groups)])
    compare(w, res)


class NoView(Exception):
    pass


def fold_view(w, t, d, view):
    """Expected mask of recipe tree t on dataset d under a view: the same elementwise operations over what fresh (cold) leaf
    states give under that very view.  What a leaf kind makes of an unusual view (a list) is not judged here - it cancels."""
    k = t[0]
    if k in ('and', 'or', 'xor'):
        a, b = fold_view(w, t[1], d, view), fold_view(w, t[2], d, view)
        return {'and': np.logical_and, 'or': np.logical_or, 'xor': np.logical_xor}[k](a, b)
    if k == 'not':
        return np.logical_not(fold_view(w, t[1], d, view))
    if k == 'multior':
        r = None
        for x in t[1]:
            m = fold_view(w, x, d, view)
            r = m if r is None else np.logical_or(r, m)
        if r is None:
            raise NoView()
        return r
    st, m = W.mask_of_view(d, w.build_leaf(t), view)
    if st != 'ok':
        raise NoView()
    return m


def compare_list_and_tuple_views(w, res, d, g, gi, t):
    """The same selection asked for under a list of integers and under the tuple of the same integers (rows vs one element for numpy;
    glue's leaf kinds differ in what they make of a list): neither answer may depend on the other having been asked before."""
    if d.ndim < 2 or depth(t) == 0:
        return
    ij = [(gi + 1) % d.shape[0], (gi + 2) % d.shape[1]]
    views = [list(ij), tuple(ij)]
    if gi % 2:
        views.reverse()
    for view in views:
        try:
            exp = fold_view(w, t, d, view)
        except (NoView, ValueError, TypeError, IndexError):
            continue
        st, got = W.mask_of_view(d, g.subset_state, view)
        if st != 'ok':
            continue        # (whether a composite accepts a view its parts accept one by one is C04's subject, for array views)
        res.probe('list_and_tuple_views')
        res.nchecks += 1
        if np.shape(got) != np.shape(exp) or not np.array_equal(got, exp):
            raise Violation('C01/mask-under-view-differs/%s/list-vs-tuple' % t[0], 'dataset %s group %d view %r: glue %s %s, parts give %s' % (
                d.label, gi, view, st, None if got is None else np.asarray(got).astype(int).tolist(), np.asarray(exp).astype(int).tolist()))


def compare(w, res):
    dc = w.dc
    for d in dc:
        cache = {}
        for gi, g in enumerate(dc.subset_groups):
            t = w.exp.get(id(g))
            if t is None:
                continue
            try:
                exp = fold(w, t, d, cache)
                est = 'ok'
            except Incompat as e:
                exp, est = None, str(e)
                res.probe('incompatible_expected')
            st, got = W.mask_of(d, g.subset_state)
            res.nchecks += 1
            dep = depth(t)
            if dep > 0:
                res.nontrivial = True
                res.fp(shape_of(t), sorted(leaves(t, [])), min(w.nreads, 5), d.ndim)
            if dep >= 3:
                res.probe('depth_ge_3')
            top = t[0]
            if st != est and not (st != 'ok' and est != 'ok'):
                raise Violation('C01/compatibility-differs/%s' % top,
                                'dataset %s group %d: glue says %s, algebra over the parts says %s; tree %s' % (d.label, gi, st, est, t))
            if st != 'ok':
                res.log.append(['cmp', d.label, gi, st])
                continue
            if got.shape != tuple(d.shape) or got.dtype != bool:
                raise Violation('C01/result-shape/%s' % top, 'dataset %s group %d: mask shape %s dtype %s, data shape %s'
                                % (d.label, gi, got.shape, got.dtype, d.shape))
            if not np.array_equal(got, exp):
                raise Violation('C01/mask-differs-from-algebra/%s' % top,
                                'dataset %s group %d: %d elements differ; tree %s' % (d.label, gi, int(np.sum(got != exp)), t))
            res.log.append(['cmp', d.label, gi, W.arr_digest(got)])
            # the same under a slice view (memo is keyed per view)
            v = VIEWS[(gi + d.ndim) % len(VIEWS)]
            if v:
                view = tuple(slice(a, a + b, c) for a, b, c in v)[:d.ndim]
                sv, gv = W.mask_of_view(d, g.subset_state, view)
                res.probe('view_compare')
                if sv != 'ok' or not np.array_equal(np.asarray(gv, dtype=bool), exp[view]):
                    raise Violation('C01/mask-under-view-differs/%s' % top, 'dataset %s group %d view %s' % (d.label, gi, v))
            compare_list_and_tuple_views(w, res, d, g, gi, t)
