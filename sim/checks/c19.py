"""C19 - exported data files load back to the same table or image.

Engine E2 with the file seam.  Histories of export (every registered exporter whose format has a reader
here), overwrite of an existing target, reload through the matching data factory, data updates followed
by re-export, subset changes, by-reference session restarts; storage faults (K6) on the writer (a real
kernel EFBIG through RLIMIT_FSIZE, read-only / missing target directory) and on the reader (missing,
truncated, zero-length file).  Oracle (C): value round trip, loud failure under faults.
"""
import gc
import os
import shutil
import tempfile
import warnings

import numpy as np

from sim.core import Violation
from sim import world as W
from sim import seams

PROP = 'C19'
TIERS = {
    'quick': {'runs': 1600, 'blocks': 16, 'max_ops': 14},
    'thorough': {'runs': 32000, 'blocks': 64, 'max_ops': 30},
}
RULE = ('Each run: 1-2 datasets (tables: float with NaN, integer and clearly non-numeric string columns; images 2-3-d: float and integer '
        'attributes) and subset groups (empty / proper / full); then a seeded history of export(dataset or subset, format in {csv, fits '
        'table, votable, hdf5, gridded fits}, possibly onto an existing file, possibly under a write fault), reload + compare, '
        'update_components, group-state change, reader faults on a copy of an exported file, save-by-reference + restore. Non-trivial: >=1 '
        'fault-free export was reloaded and compared. distinct_nontrivial counts distinct (format, what, ndim, dtype-kind set, subset kind, '
        'overwrite, generation) fingerprints at comparisons.')
EXPLANATION = ('Fault-free: every exported component comes back under its name, in the exported order, with dtype-appropriate equality (NaN '
               'preserved, strings equal as text); a table subset gives exactly the selected rows, an image subset the original values inside '
               'the mask and a blank (NaN / 0 / integer minimum) outside. Under a writer fault: the exporter raises, or the file round-trips. '
               'A missing or zero-length file must make the loader raise; truncated files of formats with an integrity structure (FITS, HDF5, '
               'VOTable) must not load to different values silently (CSV has no integrity check: a cut at a line boundary is a shorter valid '
               'file, so truncated CSV is excluded).')
REAL = ['glue.core.data_exporters (astropy_table, hdf5, gridded_fits)', 'glue.core.data_factories (load_data, astropy_table, pandas, fits, hdf5, '
        'helpers.LoadLog)', 'astropy.io / h5py / pandas writers and readers', 'the real file system incl. RLIMIT_FSIZE']
STUB = ['uuid and identity-hash streams']
ASSUMPTIONS = ['column names are ones every format accepts (the statement says so)', 'sampling, not proof']
PROBES = ['csv', 'fits_table', 'votable', 'hdf5', 'gridded_fits', 'subset_export', 'empty_subset', 'full_subset', 'overwrite_existing',
          'fault_efbig', 'fault_missing_dir', 'fault_read_missing', 'fault_read_empty', 'fault_read_truncated', 'export_raised_loudly',
          'reexport_after_update', 'byref_restart', 'chained_export', 'all_nan_column', 'byref_with_coordinates_set_later']

FORMATS = ['csv', 'fits_table', 'votable', 'hdf5', 'gridded_fits']
EXT = {'csv': 'csv', 'fits_table': 'fits', 'votable': 'vot', 'hdf5': 'hdf5', 'gridded_fits': 'fits'}
WEIGHTS = {'export': 8, 'upd': 2, 'set_state': 2, 'read_fault': 2, 'byref': 1, 'export_loaded': 2.5}
NAMES = ['alpha', 'Beta', 'zeta', 'colA', 'x1', 'mag', 'id2', 'flux']


def generate(rng, cfg, guards):
    n = rng.randrange(3, cfg['max_ops'] + 1)
    ops = []
    nd = rng.randrange(1, 3)
    for i in range(nd):
        table = rng.chance(0.6)
        order = list(range(len(NAMES)))
        rng.shuffle(order)
        ops.append(['new', 'table' if table else 'image', rng.randrange(4), rng.randrange(10000), rng.chance(0.6), rng.chance(0.6), order,
                    rng.chance(0.5), rng.chance(0.15)])
    for _ in range(rng.randrange(0, 3)):
        ops.append(['group', rng.randrange(8), rng.pick(['empty', 'full', 'proper', 'proper', 'mask']), rng.randrange(-3, 9) + 0.5, rng.randrange(1000)])
    pairs = sorted(WEIGHTS.items())
    formats = [f for f in FORMATS if ('C19-format-' + f) not in guards]
    with_faults = rng.chance(0.35)
    while len(ops) < n:
        k = rng.wpick(pairs)
        if k == 'export':
            fault = rng.pick([None, None, 'efbig', 'missing_dir']) if with_faults else None
            ops.append([k, rng.randrange(8), rng.pick([None, None, 0, 1, 2]), rng.pick(formats), rng.randrange(3), fault, rng.randrange(1, 6) * 512])
        elif k == 'upd':
            ops.append([k, rng.randrange(8), rng.randrange(8), rng.randrange(10000)])
        elif k == 'set_state':
            ops.append(['group_set', rng.randrange(8), rng.pick(['empty', 'full', 'proper', 'mask']), rng.randrange(-3, 9) + 0.5, rng.randrange(1000)])
        elif k == 'read_fault':
            if with_faults:
                ops.append([k, rng.randrange(8), rng.pick(['missing', 'empty', 'truncated']), rng.randrange(1, 4000)])
        elif k == 'export_loaded':
            ops.append([k, rng.randrange(8), rng.pick(formats)])
        else:
            ops.append([k, rng.randrange(8), rng.chance(0.5), rng.pick([0, 0, 1, 2])])
    return {'knobs': {'guards': list(guards), 'prop': PROP}, 'ops': ops}


def exporter_for(fmt):
    from glue.core.data_exporters import astropy_table as AT, hdf5 as H, gridded_fits as GF
    return {'csv': AT.csv_exporter, 'fits_table': AT.fits_exporter, 'votable': AT.votable_exporter, 'hdf5': H.hdf5_writer,
            'gridded_fits': GF.fits_writer}[fmt]


def load_for(fmt, path):
    from glue.core.data_factories import load_data
    from glue.core.data_factories import astropy_table as FT, fits as FF, hdf5 as FH
    if fmt == 'csv':
        return load_data(path)
    if fmt == 'fits_table':
        return load_data(path, factory=FT.astropy_tabular_data_fits)
    if fmt == 'votable':
        return load_data(path, factory=FT.astropy_tabular_data_votable)
    if fmt == 'hdf5':
        return load_data(path, factory=FH.hdf5_reader)
    return load_data(path, factory=FF.fits_reader)


def as_list(x):
    return list(x) if isinstance(x, (list, tuple)) else [x]


def state_for(d, kind, thr, seed):
    from glue.core import subset as S
    mains = [c for c in d.main_components if d.get_kind(c) == 'numerical']
    if kind == 'empty':
        return S.RangeSubsetState(1000.5, 1001.5, mains[0])
    if kind == 'full':
        return S.InvertState(S.RangeSubsetState(1000.5, 1001.5, mains[0]))
    if kind == 'mask':
        return S.MaskSubsetState(np.random.RandomState(seed).randint(0, 2, size=d.shape).astype(bool), d.pixel_component_ids)
    return S.InequalitySubsetState(mains[-1], thr, __import__('operator').gt)


def execute(case, res):
    tmp = tempfile.mkdtemp(prefix='verif-c19-')
    try:
        with warnings.catch_warnings():
            warnings.simplefilter('ignore')
            _execute(case, res, tmp)
    finally:
        shutil.rmtree(tmp, ignore_errors=True)


def _execute(case, res, tmp):
    w = W.World(case['knobs'], res, tmp)
    dc = w.dc
    exports = []        # dicts: path, fmt, expected columns [(name, array)], is_table, subset kind
    nfile = [0]
    updated = set()
    for op in case['ops']:
        k = op[0]
        res.nops += 1
        res.log.append([k] + [x for x in op[1:4] if isinstance(x, (str, int, type(None)))])
        if k == 'new':
            _, kind, shape_i, vs, with_int, with_str, order, special = op[:8]
            allnan = len(op) > 8 and op[8]
            from glue.core.data import Data
            w.ndata += 1
            d = Data(label='d%d' % w.ndata)
            if kind == 'table':
                shape = [(5,), (7,), (4,), (6,)][shape_i % 4]
            else:
                shape = [(3, 4), (4, 3), (2, 3, 4), (2, 2)][shape_i % 4]
            names = [NAMES[i] for i in order]
            d.add_component(W.values(vs, shape, 'int', special), names[0])
            if allnan:
                # a column without a single measured value
                d.add_component(np.full(shape, np.nan), names[1])
                res.probe('all_nan_column')
            else:
                d.add_component(W.values(vs + 1, shape, 'int'), names[1])
            if with_int:
                d.add_component(W.values(vs + 2, shape, 'intdtype'), names[2])
            if with_str and kind == 'table':
                d.add_component(W.values(vs + 3, shape, 'cat'), names[3])
            w.pool.append(d)
            dc.append(d)
        elif k == 'group':
            d = w.pick_data(op[1])
            if d is not None:
                g = dc.new_subset_group(subset_state=state_for(d, op[2], op[3], op[4]))
                g._kind = op[2]
        elif k == 'group_set':
            g = w.pick_group(op[1])
            d = w.pick_data(op[1])
            if g is not None and d is not None:
                g.subset_state = state_for(d, op[2], op[3], op[4])
                g._kind = op[2]
        elif k == 'upd':
            d = w.pick_data(op[1])
            if d is not None:
                mains = [c for c in d.main_components if d.get_kind(c) == 'numerical' and d[c].dtype.kind == 'f']
                d.update_components({mains[op[2] % len(mains)]: W.values(op[3], d.shape)})
                updated.add(id(d))
        elif k == 'export':
            export(w, res, op, exports, nfile, updated, tmp)
        elif k == 'read_fault':
            read_fault(w, res, op, exports, tmp)
        elif k == 'byref':
            byref(w, res, op, exports, tmp)
        elif k == 'export_loaded':
            export_loaded(w, res, op, exports, nfile, tmp)


def expected_columns(d, subset, fmt):
    """What the file must contain: [(name, array)], for tables rows selected, for images blanked outside."""
    cols = []
    mask = None
    if subset is not None:
        mask = np.asarray(subset.to_mask(), dtype=bool)
    for cid in d.main_components + d.derived_components:
        kind = d.get_kind(cid)
        if fmt == 'gridded_fits' and kind != 'numerical':
            continue
        vals = np.asarray(d[cid])
        cols.append((cid.label, vals, kind))
    return cols, mask


def same_values(got, exp, kind):
    got, exp = np.asarray(got), np.asarray(exp)
    if got.shape != exp.shape:
        return False
    if kind == 'categorical' or exp.dtype.kind in 'US' or got.dtype.kind in 'USO':
        g = np.array([x.decode('ascii') if isinstance(x, bytes) else str(x) for x in got.reshape(-1)])
        e = np.array([x.decode('ascii') if isinstance(x, bytes) else str(x) for x in exp.reshape(-1)])
        return bool(np.all(g == e))
    g, e = got.astype(float), exp.astype(float)
    return bool(np.all((g == e) | (np.isnan(g) & np.isnan(e))))


def compare(res, loaded, cols, mask, fmt, is_table, where, guard_hdf5_order=False):
    ds = as_list(loaded)
    if is_table or fmt in ('hdf5',):
        pass
    # collect loaded components in order (across returned datasets, as the gridded formats may return one dataset)
    got = []
    for d in ds:
        for cid in d.main_components:
            got.append((cid.label, np.asarray(d[cid]), None))
    names_exp = [n for n, _, _ in cols]
    names_got = [n for n, _, _ in got]
    if fmt == 'gridded_fits':
        # FITS extension names are case-insensitive and stored upper-case: that is the name the format can represent
        names_exp = [n.upper() for n in names_exp]
        names_got = [n.upper() for n in names_got]
    if fmt == 'hdf5' and guard_hdf5_order:
        order = dict((n, i) for i, n in enumerate(names_got))
        if sorted(names_exp) == sorted(names_got):
            cols = sorted(cols, key=lambda c: order[c[0]])
            names_exp = [n for n, _, _ in cols]
    if sorted(names_exp) != sorted(names_got):
        raise Violation('C19/components-differ/%s' % fmt, '%s: exported %s, loaded %s' % (where, names_exp, names_got))
    if names_exp != names_got:
        raise Violation('C19/component-order-differs/%s' % fmt, '%s: exported %s, loaded %s' % (where, names_exp, names_got))
    for (n, e, kind), (_, g, _) in zip(cols, got):
        if mask is not None:
            if e.ndim == 1 and fmt != 'gridded_fits':      # gridded FITS treats every dataset as an image
                e = e[mask]
                ok = same_values(g, e, kind)
            else:
                if g.shape != e.shape:
                    ok = False
                else:
                    inside = same_values(np.asarray(g)[mask], e[mask], kind)
                    out = np.asarray(g)[~mask]
                    if out.dtype.kind == 'f':
                        blank = np.all(np.isnan(out) | (out == 0) | (out == np.iinfo(np.int64).min))
                    else:
                        blank = np.all((out == 0) | (out == np.iinfo(out.dtype).min if out.dtype.kind == 'i' else False))
                    ok = inside and bool(blank)
        else:
            ok = same_values(g, e, kind)
        res.nchecks += 1
        if not ok:
            raise Violation('C19/values-differ/%s/%s' % (fmt, kind), '%s: component %s: exported %s loaded %s'
                            % (where, n, np.asarray(e).reshape(-1)[:6], np.asarray(g).reshape(-1)[:6]))


def export(w, res, op, exports, nfile, updated, tmp):
    _, dh, gh, fmt, reuse, fault, limit = op
    dc = w.dc
    d = w.pick_data(dh)
    if d is None:
        return
    is_table = d.ndim == 1
    if fmt in ('csv', 'fits_table', 'votable') and not is_table:
        return
    if fmt == 'gridded_fits' and is_table and False:
        return
    subset, skind = None, 'none'
    if gh is not None and len(dc.subset_groups):
        g = dc.subset_groups[gh % len(dc.subset_groups)]
        subs = [s for s in d.subsets if s.group is g]
        if subs:
            try:
                subs[0].to_mask()
            except Exception:
                return
            subset, skind = subs[0], getattr(g, '_kind', 'proper')
    # choose the target: a new file or an existing one of the same format (overwrite)
    same = [e for e in exports if e['fmt'] == fmt]
    if same and reuse == 0:
        path = same[-1]['path']
        res.probe('overwrite_existing')
        overwrite = True
    else:
        nfile[0] += 1
        path = os.path.join(tmp, 'e%d.%s' % (nfile[0], EXT[fmt]))
        overwrite = False
    cols, mask = expected_columns(d, subset, fmt)
    obj = subset if subset is not None else d
    res.probe(fmt)
    if subset is not None:
        res.probe('subset_export')
        res.probe({'empty': 'empty_subset', 'full': 'full_subset'}.get(skind, 'subset_export'))
    if id(d) in updated and any(e['data'] is d for e in exports):
        res.probe('reexport_after_update')
    if fault == 'efbig' and fmt == 'hdf5':
        # the HDF5 C library does not survive a failed write reliably (it can take the interpreter down when the
        # half-written file object is deallocated), so the kernel-level fault is not used with this writer
        fault = 'missing_dir'
    raised = None
    try:
        if fault == 'efbig':
            with seams.fsize_limit(limit):
                exporter_for(fmt)(path, obj)
        elif fault == 'missing_dir':
            exporter_for(fmt)(os.path.join(tmp, 'no-such-dir', os.path.basename(path)), obj)
        else:
            exporter_for(fmt)(path, obj)
    except Exception as e:
        raised = e
    gc.collect()
    if fault is not None:
        res.fault('storage_' + fault)
        res.probe({'efbig': 'fault_efbig', 'missing_dir': 'fault_missing_dir'}[fault])
    if raised is not None:
        res.probe('export_raised_loudly')
        exports[:] = [e for e in exports if e['path'] != path]
        if fault is None and not (subset is not None and skind == 'empty'):
            raise Violation('C19/export-raises/%s/%s' % (fmt, type(raised).__name__), '%s of %s: %s' % (fmt, 'subset' if subset is not None else 'data', str(raised)[:300]))
        return
    if fault == 'missing_dir':
        raise Violation('C19/export-to-missing-directory-silent/%s' % fmt, 'no error although the target directory does not exist')
    # reload and compare
    try:
        loaded = load_for(fmt, path)
    except Exception as e:
        if fault == 'efbig':
            return          # the fault hit silently inside the C writer but the damaged file is rejected loudly on load
        if subset is not None and skind == 'empty':
            return          # a file with no rows is rejected loudly by the reader: acceptable
        raise Violation('C19/reload-raises/%s/%s' % (fmt, type(e).__name__), 'file written without error cannot be loaded: %s' % str(e)[:300])
    res.nontrivial = True
    kinds = sorted(set(np.asarray(v).dtype.kind for _, v, _ in cols))
    res.fp(fmt, 'subset' if subset is not None else 'data', d.ndim, kinds, skind, overwrite, fault)
    compare(res, loaded, cols, mask, fmt, is_table, 'export %s' % fmt, 'C19-hdf5-order' in w.guards)
    exports[:] = [e for e in exports if e['path'] != path]
    exports.append({'path': path, 'fmt': fmt, 'cols': cols, 'mask': mask, 'is_table': is_table, 'data': d})


def export_loaded(w, res, op, exports, nfile, tmp):
    """A dataset that was itself loaded from an exported file (e.g. big-endian FITS columns) is exported again, possibly
    in another format, and must round-trip too."""
    _, eh, fmt = op
    if not exports:
        return
    e = exports[eh % len(exports)]
    try:
        loaded = as_list(load_for(e['fmt'], e['path']))
    except Exception:
        return
    d = loaded[0]
    if len(loaded) != 1 or not d.main_components:
        return
    is_table = d.ndim == 1
    if fmt in ('csv', 'fits_table', 'votable') and not is_table:
        return
    if d.size == 0:
        return
    nfile[0] += 1
    path = os.path.join(tmp, 'x%d.%s' % (nfile[0], EXT[fmt]))
    cols, mask = expected_columns(d, None, fmt)
    try:
        exporter_for(fmt)(path, d)
    except Exception as ex:
        raise Violation('C19/export-raises/%s/%s' % (fmt, type(ex).__name__), 'export of a dataset loaded from %s: %s' % (e['fmt'], str(ex)[:300]))
    try:
        again = load_for(fmt, path)
    except Exception as ex:
        raise Violation('C19/reload-raises/%s/%s' % (fmt, type(ex).__name__), 'dataset loaded from %s, exported as %s: %s' % (e['fmt'], fmt, str(ex)[:300]))
    res.probe('chained_export')
    res.nontrivial = True
    res.fp('chain', e['fmt'], fmt, d.ndim)
    compare(res, again, cols, mask, fmt, is_table, 'export %s of data loaded from %s' % (fmt, e['fmt']), 'C19-hdf5-order' in w.guards)


def read_fault(w, res, op, exports, tmp):
    _, eh, kind, param = op
    if not exports:
        return
    e = exports[eh % len(exports)]
    bad = e['path'] + '.bad.' + EXT[e['fmt']]
    data = open(e['path'], 'rb').read()
    if kind == 'truncated':
        if e['fmt'] == 'csv':
            return      # no integrity structure: a cut CSV can be a shorter valid table
        cut = max(1, min(len(data) - 1, param % max(2, len(data))))
        open(bad, 'wb').write(data[:cut])
        res.probe('fault_read_truncated')
    elif kind == 'empty':
        open(bad, 'wb').close()
        res.probe('fault_read_empty')
    else:
        if os.path.exists(bad):
            os.remove(bad)
        res.probe('fault_read_missing')
    res.fault('storage_read_' + kind)
    try:
        loaded = load_for(e['fmt'], bad)
    except Exception:
        return
    finally:
        gc.collect()
    if kind in ('missing', 'empty'):
        nvals = sum(int(np.asarray(d[c]).size) for d in as_list(loaded) for c in d.main_components)
        if kind == 'empty' and nvals == 0:
            return      # a zero-length text file read as an empty table is not wrong data
        raise Violation('C19/damaged-file-loads-silently/%s/%s' % (e['fmt'], kind), 'load_data returned %r' % (loaded,))
    # truncated: the reader (astropy / h5py) may stop at the damage and return fewer components; what it does return
    # must be right
    names = [n.upper() if e['fmt'] == 'gridded_fits' else n for n, _, _ in e['cols']]
    keep = []
    for d in as_list(loaded):
        for cid in d.main_components:
            lab = cid.label.upper() if e['fmt'] == 'gridded_fits' else cid.label
            if lab not in names:
                raise Violation('C19/truncated-file-loads-wrong-data/%s' % e['fmt'], 'unknown component %s' % cid.label)
            keep.append(lab)
    cols = [c for c, n in zip(e['cols'], names) if n in keep]
    try:
        compare(res, loaded, cols, e['mask'], e['fmt'], e['is_table'], 'truncated %s' % e['fmt'], True)
    except Violation as v:
        raise Violation('C19/truncated-file-loads-wrong-data/%s' % e['fmt'], v.detail)


def byref(w, res, op, exports, tmp):
    """Load an exported file into a fresh session, save it by reference, drop everything, restore, compare values."""
    from glue.core.application_base import Application
    from glue.core.data_collection import DataCollection
    _, eh, absolute = op[:3]
    calib = op[3] if len(op) > 3 else 0
    if not exports:
        return
    e = exports[eh % len(exports)]
    try:
        loaded = as_list(load_for(e['fmt'], e['path']))
    except Exception:
        return
    if calib:
        # the user attaches coordinates to what was read from the file (the file itself has none to offer)
        for d in loaded:
            if d.coords is None:
                d.coords = W.make_coords(calib, d.ndim)
                res.probe('byref_with_coordinates_set_later')
    app = Application(DataCollection(loaded))
    path = os.path.join(tmp, 'byref.glu')
    try:
        app.save_session(path, include_data=False, absolute_paths=absolute)
    except Exception as ex:
        res.log.append(['byref-save-raised', type(ex).__name__])
        return
    before = [[(c.label, W.arr_digest(d[c])) for c in d.main_components] for d in app.data_collection]
    del app, loaded
    gc.collect()
    try:
        app2 = Application.restore_session(path)
    except Exception as ex:
        raise Violation('C19/byref-restore-fails/%s/%s' % (e['fmt'], type(ex).__name__), str(ex)[:300])
    after = [[(c.label, W.arr_digest(d[c])) for c in d.main_components] for d in app2.data_collection]
    res.probe('byref_restart')
    res.fault('crash_restart')
    res.nchecks += 1
    if before != after:
        raise Violation('C19/byref-values-differ/%s' % e['fmt'], 'before %s after %s' % (before, after))
