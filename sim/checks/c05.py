"""C05 - results always reflect the current data, regions and links, never a stale cache.

Engine E2, oracle (B): twin-world differential.  World A executes the generated history of writes
*and reads* (K7 read schedule: masks, values, statistics, histograms, copies; repeated, under views).
At up to three checkpoints a twin world B is built from a clean process state by replaying the same
writes with no read at all - "a freshly constructed, never-evaluated copy of the same objects" - and
every observable of A must equal B's.  Non-cache bugs are present in both worlds and cancel.
"""
import gc
import os
import shutil
import tempfile

import numpy as np

from sim.core import Violation
from sim import world as W
from sim import seams
from sim import linkfuncs as LF

PROP = 'C05'
TIERS = {
    'quick': {'runs': 3200, 'blocks': 16, 'max_ops': 24, 'hist': 0.06},
    'thorough': {'runs': 64000, 'blocks': 64, 'max_ops': 60, 'hist': 0.05},
}
RULE = ('Each run is one seeded history interleaving writes {update_components, update_values_from_data (same shape / new shape), '
        'replace a group state, in-place edit of a top-level non-memoised state (range bounds, multi-range pairs, ROI move_to, mask), '
        'add component, add/remove link, new/remove group, rewrite a data file + simulated poll tick -> LoadLog.reload, update a kept '
        'refresh source, refresh again from it, hand one array object to two datasets, create a selection outside any group, put a '
        'replaced state object back on a group} with '
        'reads {mask, value, statistic, histogram, state copy, free-state mask; repeated; under views; in 40% of runs also a hub '
        'listener that evaluates the sender\'s selections inside every message handler; in 4-5% a real histogram viewer} and 1-3 '
        'checkpoints. Non-trivial: at least one '
        'checkpoint compared >=1 group mask after >=1 write that followed >=1 read. distinct_nontrivial counts distinct '
        '(last write kind, last read kind, #datasets, #groups, state-class multiset of the groups, #writes-after-read) fingerprints at checkpoints.')
EXPLANATION = ('Observables compared at a checkpoint: every component value of every dataset (incl. derived and linked), every group mask '
               'on every dataset (or "incompatible"), min/max/sum/mean of numeric components with and without each group state, a '
               'fixed-range histogram with each group state, masks of free states. World B is rebuilt from reset process globals with the '
               'same uuid / hash streams. Independent of the twin: each tracked state vs a never-evaluated clone of itself (at checkpoints, '
               'and inside the listener at NumericalDataChangedMessage); stored values of every dataset vs the last write to that dataset '
               '(after every op); what the histogram viewer shows vs the twin\'s compute_histogram; values reached through one direct link '
               'vs the registered link functions.')
REAL = ['glue.core.decorators (memoize)', 'glue.core.subset', 'glue.core.data', 'glue.core.subset_group', 'glue.core.link_manager', 'glue.core.hub',
        'glue.viewers.histogram (state, layer artist, viewer; matplotlib Agg)',
        'glue.core.data_factories (load_data, LoadLog, FileWatcher)', 'real CSV files']
STUB = ['poll timer (SimTimer on a discrete-event clock)', 'uuid and identity-hash streams', 'GC schedule',
        'fast_histogram.histogram1d only for ranges narrower than 1e-300 (the C function segfaults there); real otherwise']
ASSUMPTIONS = ['both worlds run the same glue code: a bug that is wrong in the same way with warm and cold caches is invisible here',
               'generator guards exclude the write patterns of the open findings listed in known_findings.json',
               'sampling, not proof']
SIMTIME_NOTE = 'simulated poll-clock seconds advanced by the scheduler (FileWatcher timer)'
PROBES = ['write_after_read', 'nested_state_after_update', 'shape_change_after_read', 'file_reload_fired', 'linked_mask_after_update',
          'stat_after_update', 'copy_read', 'view_read', 'poll_tick_no_change', 'poll_after_file_vanished', 'link_swapped_same_endpoints', 'listener_read_inside_write',
          'listener_fresh_clone_compared', 'refresh_drops_component', 'refresh_from_kept_source', 'kept_source_updated',
          'array_shared_between_datasets', 'refresh_adds_component', 'kept_source_reshaped', 'refresh_changes_ndim', 'free_state_read', 'member_state_read', 'old_state_reapplied', 'viewer_histogram_read', 'viewer_histogram_compared', 'viewer_display_flags_changed', 'burst_of_views']
PROBES_THOROUGH_ONLY = []

READS = ('read_mask', 'read_val', 'read_stat', 'read_hist', 'read_copy', 'hv_read', 'hv_new', 'read_free', 'read_member', 'hv_flags', 'read_burst')
WEIGHTS = {'upd': 6, 'upd_from': 2, 'set_state': 3, 'edit_top': 3, 'add_comp': 1, 'add_link': 1.5, 'remove_link': 0.7, 'swap_link': 1.5,
           'new_group': 2, 'remove_group': 0.5, 'new': 1, 'append': 1.5, 'rewrite': 1.5, 'advance': 2, 'vanish': 0.2,
           'read_mask': 8, 'read_val': 3, 'read_stat': 3, 'read_hist': 2, 'read_copy': 1, 'check': 1.2,
           'edit_memo': 2, 'edit_nested': 2, 'upd_src': 1.5, 'new_free': 1, 'read_free': 3, 'reapply': 1, 'read_member': 3, 'read_burst': 0.7}
VIEWS = [None, None, [[0, 3, 1]], [[1, 4, 2]], 'int0', [[0, 2, 1], [0, 2, 1]]]


def generate(rng, cfg, guards):
    n = rng.randrange(5, cfg['max_ops'] + 1)
    w = {}
    for k, v in sorted(WEIGHTS.items()):
        if k in ('upd', 'read_mask', 'new_group', 'check') or rng.chance(0.7):
            w[k] = v * rng.pick([0.5, 1, 2])
    pairs = sorted(w.items())
    r8 = lambda: rng.randrange(8)
    kinds = ['ineq', 'range', 'mrange', 'roi', 'mask', 'slice', 'elem', 'catroi', 'cat']
    if 'C05-state-flood' not in guards:
        kinds.append('flood')
    ops = []
    use_file = rng.chance(0.3)
    if use_file:
        ops.append(['new_file', rng.randrange(3, 7), rng.randrange(1, 3), rng.randrange(10000)])
    ops.append(['new', rng.randrange(len(W.SHAPES)), rng.randrange(1, 3), rng.randrange(10000), rng.chance(0.4), 0, rng.chance(0.3)])
    ops.append(['append', len(ops) - 1])
    if rng.chance(0.45):
        # half of the second datasets have the shape of the first (arrays can then be handed to both)
        ops.append(['new', ops[-2][1] if rng.chance(0.5) else rng.randrange(len(W.SHAPES)), rng.randrange(1, 3), rng.randrange(10000), False, 0, False])
        ops.append(['append', len(ops) - 1])
        ops.append(['add_link', 0, r8(), 1, r8(), rng.pick(sorted(LF.ONE))])
    ops.append(['new_group', W.gen_recipe(rng, 2, kinds)])
    # K11: a hub listener that evaluates the selections of the sender inside every message handler (what every viewer does)
    listener = rng.chance(0.4)
    hist = rng.chance(cfg.get('hist', 0.0))
    if hist:
        # a real histogram viewer (matplotlib, Agg): what it plots is cached in HistogramLayerState
        ops.append(['hv_new', 0])
        if rng.chance(0.5):
            # the display flags are not part of what the viewer's cache is keyed on: read normalised, then plain
            ops += [['hv_flags', True, False], ['hv_read'], ['hv_flags', False, rng.chance(0.3)], ['check']]
        n = min(n, 14)
        pairs = sorted(dict(pairs, hv_read=8, hv_flags=4).items())
    while len(ops) < n:
        k = rng.wpick(pairs)
        if k == 'new':
            ops.append(['new', rng.randrange(len(W.SHAPES)), rng.randrange(1, 3), rng.randrange(10000), rng.chance(0.3), 0, rng.chance(0.3)])
        elif k == 'append':
            ops.append([k, r8()])
        elif k == 'upd':
            ops.append([k, r8(), r8(), rng.randrange(10000), rng.chance(0.25)])
        elif k == 'upd_from':
            ops.append([k, r8(), rng.randrange(10000), rng.pick([None, None, 0, 1, 2]), rng.chance(0.25), rng.pick([None, None, 0, 1]), rng.chance(0.25)])
            if ops[-1][5] is None and rng.chance(0.35):
                # the life of a refresh source: its owner updates it, the dataset is refreshed from it again and read, the
                # owner updates it once more (handle -1: the most recent source)
                hd, cc = ops[-1][1], r8()
                ops.append(['upd_src', -1, cc, rng.randrange(10000)])
                ops.append(['upd_from', hd, rng.randrange(10000), None, False, -1, False])
                ops.append(['read_mask', hd, r8(), 0, 1])
                ops.append(['upd_src', -1, cc, rng.randrange(10000)])
        elif k == 'upd_src':
            if rng.chance(0.3):
                ops.append(['src_reshape', r8(), rng.randrange(10000), rng.randrange(3)])
            else:
                ops.append([k, r8(), r8(), rng.randrange(10000)])
        elif k == 'new_free':
            ops.append([k, W.gen_recipe(rng, 1, kinds)])
        elif k == 'read_free':
            ops.append([k, r8(), r8(), rng.randrange(len(VIEWS))])
        elif k == 'read_member':
            ops.append([k, r8(), r8(), r8(), rng.randrange(len(VIEWS))])
        elif k == 'reapply':
            ops.append([k, r8(), r8()])
        elif k in ('set_state', ):
            ops.append([k, r8(), W.gen_recipe(rng, 2, kinds)])
        elif k == 'new_group':
            ops.append([k, W.gen_recipe(rng, 2, kinds)])
        elif k in ('edit_top', 'edit_memo', 'edit_nested'):
            ops.append([k, r8(), rng.randrange(-3, 9) + 0.5, rng.randrange(1, 5), r8()])
        elif k == 'add_comp':
            ops.append([k, r8(), rng.randrange(10000)])
        elif k == 'add_link':
            ops.append([k, r8(), r8(), r8(), r8(), rng.pick(sorted(LF.ONE))])
        elif k in ('remove_link', 'remove_group'):
            ops.append([k, r8()])
        elif k == 'swap_link':
            ops.append([k, r8(), rng.pick(sorted(LF.ONE)), rng.chance(0.5)])
        elif k == 'rewrite':
            ops.append([k, rng.randrange(10000), rng.chance(0.2)])
        elif k == 'advance':
            ops.append([k, rng.pick([0.3, 1.0, 1.0, 2.5])])
        elif k == 'vanish':
            ops.append([k])
        elif k == 'read_mask':
            ops.append([k, r8(), r8(), rng.randrange(len(VIEWS)), rng.randrange(1, 3)])
        elif k == 'read_val':
            ops.append([k, r8(), r8(), rng.randrange(len(VIEWS))])
        elif k == 'read_burst':
            # a client that pans / zooms: one selection under very many different views (any bound on a cache is exceeded)
            ops.append([k, r8(), r8(), rng.pick([70, 90, 140, 300])])
            ops.append(['read_mask', ops[-1][1], ops[-1][2], 0, 1])
        elif k == 'read_stat':
            ops.append([k, r8(), r8(), rng.pick(['minimum', 'maximum', 'mean', 'sum', 'median']), rng.pick([None, 0, 1])])
        elif k == 'read_hist':
            ops.append([k, r8(), r8(), rng.pick([None, 0, 1])])
        elif k == 'read_copy':
            ops.append([k, r8(), r8()])
        elif k == 'hv_read':
            ops.append([k])
        elif k == 'hv_flags':
            ops.append([k, rng.chance(0.5), rng.chance(0.3)])
        else:
            ops.append(['check'])
    ops.append(['check'])
    return {'knobs': {'guards': list(guards), 'prop': PROP, 'listener': listener}, 'ops': ops}


def simplify(case):
    ops = case['ops']
    for i, op in enumerate(ops):
        if op[0] in ('new_group', 'set_state'):
            r = op[-1]
            if r[0] in ('and', 'or', 'xor'):
                for sub in (r[1], r[2]):
                    new = list(ops)
                    new[i] = op[:-1] + [sub]
                    yield dict(case, ops=new)
            elif r[0] == 'not':
                new = list(ops)
                new[i] = op[:-1] + [r[1]]
                yield dict(case, ops=new)
            elif r[0] == 'multior' and len(r[1]) >= 1:
                new = list(ops)
                new[i] = op[:-1] + [r[1][0]]
                yield dict(case, ops=new)


# ----------------------------------------------------------------------------- the world

class CacheWorld(W.World):
    def __init__(self, knobs, res, tmp, clock):
        W.World.__init__(self, knobs, res, tmp)
        self.clock = clock
        self.links = []
        self.files = []      # (path, data)
        self.nx = 0
        self.read_states = set()   # ids of state objects some read has evaluated (they are kept alive by the groups / memo)
        self.detail = None
        self.dirty = False
        self.keep = []
        self.hv = None
        self.sources = []          # datasets a dataset was refreshed from, kept (and later modified) by their owner
        self.last_arr = None
        self.free = []             # selection states that belong to no group (a script holding on to `d.id['x'] > 2`)
        self.old_states = []       # states replaced on their group, kept by an undo stack or a script
        self.listener = None
        self.fresh_violation = None
        self.vmodel = {}
        self.written = None

    def tracked_states(self):
        out = [g.subset_state for g in self.dc.subset_groups] + self.free + self.old_states
        return out

    def mark_read(self, st):
        if id(st) not in self.read_states:
            self.read_states.add(id(st))
            self.keep.append(st)        # ids must never be reused while they are in the set

    def view_for(self, d, vi):
        v = VIEWS[vi % len(VIEWS)]
        if v is None:
            return None
        if v == 'int0':
            return (0,) if d.ndim >= 1 and d.shape[0] > 0 else None
        sl = tuple(slice(a, a + b, c) for a, b, c in v)[:d.ndim]
        return sl


def write_csv(path, n, ncols, vs, drop=False):
    cols = [W.values(vs + j, (n,)) for j in range(ncols)]
    with open(path, 'w') as f:
        f.write(','.join('f%d' % j for j in range(ncols)) + '\n')
        for i in range(n - (1 if drop else 0)):
            f.write(','.join('%g' % c[i] for c in cols) + '\n')


def top_state(g):
    return g.subset_state


MEMO_FREE = ('SubsetState', 'RangeSubsetState', 'MultiRangeSubsetState', 'RoiSubsetState', 'MaskSubsetState', 'SliceSubsetState')


def memo_owner(st):
    """Name of the class whose memoised to_mask serves this state (None if it is not memoised)."""
    from glue.core import subset as S
    if isinstance(st, S.InvertState):
        return 'InvertState'
    if isinstance(st, S.CompositeSubsetState):
        return 'CompositeSubsetState'
    n = type(st).__name__
    return None if n in MEMO_FREE else n


def apply_op(w, op, res, reading, skip=False):
    """Execute one op.  ``reading``: world A executes reads, the twin skips them.
    ``skip``: world A decided (generator guard of an open finding) not to execute this write."""
    if skip:
        return 'guarded'
    from glue.core import subset as S
    from glue.core.component_link import ComponentLink
    from glue.core.data import Data
    from glue.core.exceptions import IncompatibleAttribute
    k = op[0]
    dc = w.dc
    if k in READS:
        if not reading:
            return 'skipped'
        if k == 'hv_read':
            if w.hv is None:
                return 'none'
            for la in w.hv.layers:
                try:
                    la.state.histogram
                except Exception:
                    pass
            res.probe('viewer_histogram_read')
            return 'read'
        if k == 'hv_flags':
            # display settings of the viewer (not part of what its cache is keyed on): normalised / cumulative
            if w.hv is None:
                return 'none'
            w.hv.state.normalize, w.hv.state.cumulative = bool(op[1]), bool(op[2])
            res.probe('viewer_display_flags_changed')
            return 'read'
        if k == 'hv_new':
            # a viewer only reads the data: it exists in the warm world only
            from glue.viewers.histogram.viewer import SimpleHistogramViewer
            d = w.pick_data(op[1])
            if d is None or w.hv is not None:
                return 'none'
            v = w.app.new_data_viewer(SimpleHistogramViewer)
            v.add_data(d)
            nums = [c for c in d.main_components if d.get_kind(c) == 'numerical']
            v.state.x_att = nums[0]
            v.state.hist_x_min, v.state.hist_x_max, v.state.hist_n_bin = -5, 13, 6
            w.hv = v
            for g in dc.subset_groups:
                w.mark_read(g.subset_state)
            return 'read'
        d = w.pick_data(op[1])
        if d is None:
            return 'none'
        try:
            if k == 'read_free':
                if not w.free:
                    return 'none'
                st = w.free[op[2] % len(w.free)]
                w.mark_read(st)
                res.probe('free_state_read')
                d.get_mask(st, view=w.view_for(d, op[3]))
            elif k == 'read_member':
                g = w.pick_group(op[2])
                kids = members_of(g.subset_state) if g is not None else []
                if not kids:
                    return 'none'
                st = kids[op[3] % len(kids)]
                w.mark_read(g.subset_state)
                res.probe('member_state_read')
                d.get_mask(st, view=w.view_for(d, op[4]))
            elif k == 'read_mask':
                g = w.pick_group(op[2])
                if g is None:
                    return 'none'
                view = w.view_for(d, op[3])
                if view is not None:
                    res.probe('view_read')
                w.mark_read(g.subset_state)
                for _ in range(op[4]):
                    d.get_mask(g.subset_state, view=view)
            elif k == 'read_burst':
                g = w.pick_group(op[2])
                if g is None:
                    return 'none'
                w.mark_read(g.subset_state)
                res.probe('burst_of_views')
                views = [(slice(a, b, c),) for c in (1, 2, 3) for a in range(10) for b in range(a, a + 12)][:op[3]]
                for v in views:
                    d.get_mask(g.subset_state, view=v)
            elif k == 'read_val':
                cid = w.pick_cid(d, op[2])
                d.get_data(cid, view=w.view_for(d, op[3]))
            elif k == 'read_stat':
                cid = w.pick_cid(d, op[2], True)
                g = w.pick_group(op[4]) if op[4] is not None else None
                if g is not None:
                    w.mark_read(g.subset_state)
                d.compute_statistic(op[3], cid, subset_state=g.subset_state if g is not None else None)
            elif k == 'read_hist':
                cid = w.pick_cid(d, op[2], True)
                g = w.pick_group(op[3]) if op[3] is not None else None
                if g is not None:
                    w.mark_read(g.subset_state)
                d.compute_histogram([cid], range=[(-5, 13)], bins=[6], subset_state=g.subset_state if g is not None else None)
            elif k == 'read_copy':
                g = w.pick_group(op[2])
                if g is None:
                    return 'none'
                res.probe('copy_read')
                w.mark_read(g.subset_state)     # a copy of a many-way or shares its member objects (and their memo entries)
                d.get_mask(g.subset_state.copy())
        except IncompatibleAttribute:
            return 'incompatible'
        except Exception as e:
            # a read that fails (e.g. an all-integer view on a categorical state, C04) is just a failed read here
            return 'read-error:%s' % type(e).__name__
        return 'read'
    if k == 'new':
        w.new_data(op[1], op[2], op[3], cat=op[4], coords=op[5], special=op[6])
    elif k == 'new_file':
        from glue.core.data_factories import load_data
        path = os.path.join(w.tmp, 'f%d.csv' % len(w.files))
        write_csv(path, op[1], op[2], op[3])
        os.utime(path, (1000, 1000))
        d = load_data(path)
        w.pool.append(d)
        w.files.append([path, d, 1000, op[1], op[2]])
    elif k == 'append':
        d = w.pick_pool(op[1])
        if d is not None:
            dc.append(d)
    elif k == 'upd':
        d = w.pick_data(op[1])
        if d is not None and 'C05-flood-update' in w.guards and has_flood(w, d):
            return 'guarded'
        if d is not None:
            mains = [c for c in d.main_components if d.get_kind(c) == 'numerical']
            if mains:
                cid = mains[op[2] % len(mains)]
                if any(memo_owner(g.subset_state) in ('CompositeSubsetState', 'InvertState', 'MultiOrState')
                       and id(g.subset_state) in w.read_states for g in dc.subset_groups):
                    res.probe('nested_state_after_update')
                if w.read_states and any(l is x for l in w.links for x in dc.external_links):
                    res.probe('linked_mask_after_update')
                arr = W.values(op[3], d.shape)
                if len(op) > 4 and op[4] and w.last_arr is not None and w.last_arr.shape == d.shape:
                    # the caller hands the same array object to two datasets
                    arr = w.last_arr
                    res.probe('array_shared_between_datasets')
                w.last_arr = arr
                w.written = d
                d.update_components({cid: arr})
    elif k == 'upd_src':
        # the owner of a dataset that another one was refreshed from goes on modifying it
        if w.sources:
            p = w.sources[op[1] % len(w.sources)]
            mains = [c for c in p.main_components if p.get_kind(c) == 'numerical']
            if mains:
                res.probe('kept_source_updated')
                p.update_components({mains[op[2] % len(mains)]: W.values(op[3], p.shape)})
    elif k == 'src_reshape':
        # the owner of a refresh source refreshes the source itself, with another shape
        if w.sources:
            p = w.sources[op[1] % len(w.sources)]
            cands = [sh for sh in W.SHAPES if len(sh) == p.ndim and sh != p.shape]
            if cands:
                shape = cands[op[3] % len(cands)]
                newer = Data(label=p.label)
                for j, c in enumerate(p.main_components):
                    newer.add_component(W.values(op[2] + j, shape, 'cat' if p.get_kind(c) == 'categorical' else 'int'), c.label)
                newer.coords = p.coords
                res.probe('kept_source_reshaped')
                p.update_values_from_data(newer)
    elif k == 'new_free':
        w.free.append(w.build_state(op[1]))
        del w.free[:-3]
    elif k == 'reapply':
        g = w.pick_group(op[1])
        cands = w.old_states + w.free
        if g is not None and cands:
            st = cands[op[2] % len(cands)]
            if st is not g.subset_state:
                w.old_states.append(g.subset_state)
                del w.old_states[:-4]
                res.probe('old_state_reapplied')
                g.subset_state = st
    elif k == 'upd_from':
        d = w.pick_data(op[1])
        if d is not None and 'C05-flood-update' in w.guards and has_flood(w, d):
            return 'guarded'
        if d is not None:
            shape = d.shape
            if op[3] is not None:
                cands = [s for s in W.SHAPES if len(s) == d.ndim]
                if op[3] == 2 and op[2] % 3 == 0:
                    cands = list(W.SHAPES)          # sometimes also another number of dimensions
                    res.probe('refresh_changes_ndim')
                shape = cands[op[3] % len(cands)]
                if any(isinstance(s.subset_state, S.MaskSubsetState) for s in d.subsets):
                    shape = d.shape
            for c in d.derived_components:
                return 'skip-derived'
            drop = len(op) > 4 and op[4] and len(d.main_components) > 1
            reuse = op[5] if len(op) > 5 else None
            labels = [c.label for c in d.main_components]
            other = None
            if reuse is not None and w.sources:
                cand = w.sources[reuse % len(w.sources)]
                if [c.label for c in cand.main_components] == labels and cand.ndim == d.ndim and \
                        not (cand.shape != d.shape and any(isinstance(s.subset_state, S.MaskSubsetState) for s in d.subsets)):
                    other = cand
                    shape = cand.shape
                    res.probe('refresh_from_kept_source')
            if other is None:
                other = Data(label=d.label)
                for j, c in enumerate(d.main_components):
                    if drop and j == len(d.main_components) - 1:
                        # the new version of the dataset no longer has this attribute: it is removed (and announced) half-way
                        res.probe('refresh_drops_component')
                        continue
                    if d.get_kind(c) == 'categorical':
                        other.add_component(W.values(op[2] + j, shape, 'cat'), c.label)
                    else:
                        other.add_component(W.values(op[2] + j, shape), c.label)
                if len(op) > 6 and op[6]:
                    # the new version has an attribute more: the refreshed dataset gains it
                    w.nx += 1
                    other.add_component(W.values(op[2] + 50, shape), 'e%d' % w.nx)
                    res.probe('refresh_adds_component')
                other.coords = d.coords
                w.sources.append(other)
                del w.sources[:-3]
            if shape != d.shape:
                res.probe('shape_change_after_read')
            w.written = d
            d.update_values_from_data(other)
    elif k == 'new_group':
        dc.new_subset_group(subset_state=w.build_state(op[1]))
    elif k == 'remove_group':
        g = w.pick_group(op[1])
        if g is not None and len(dc.subset_groups) > 1:
            dc.remove_subset_group(g)
    elif k == 'set_state':
        g = w.pick_group(op[1])
        if g is not None:
            w.old_states.append(g.subset_state)
            del w.old_states[:-4]
            g.subset_state = w.build_state(op[2])
    elif k == 'edit_top':
        g = w.pick_group(op[1])
        if g is not None:
            st = g.subset_state
            if type(st) is S.RangeSubsetState:
                st.lo = op[2]
                st.hi = op[2] + op[3]
            elif type(st) is S.MultiRangeSubsetState:
                st.pairs = [(op[2], op[2] + op[3])]
            elif type(st) is S.RoiSubsetState:
                if op[4] % 2:
                    st.move_to(op[2], op[2] + 1)
                else:
                    st.roi = W.build_roi('rect', [op[2], op[2], op[3], op[3]])
            elif type(st) is S.MaskSubsetState:
                st.mask = ~st.mask
            elif type(st) is S.SliceSubsetState:
                st.slices = [slice(0, int(op[3]))] + list(st.slices[1:])
            else:
                return 'n/a'
            g.broadcast('subset_state')
    elif k == 'edit_memo':
        g = w.pick_group(op[1])
        if g is not None:
            st = g.subset_state
            if 'C05-inplace-memoised' in w.guards and id(st) in w.read_states:
                return 'guarded'
            w.detail = 'inplace-edit:%s' % memo_owner(st)
            if type(st) is S.InequalitySubsetState:
                st.right = op[2]
            elif type(st) is S.CategorySubsetState:
                st.categories = np.array([op[3] % 5])
            elif type(st) is S.ElementSubsetState:
                st.indices = np.array([op[3] % 3])
            elif type(st) is S.CategoricalROISubsetState:
                from glue.core.roi import CategoricalROI
                st.roi = CategoricalROI(['a', 'e'][:1 + op[3] % 2])
            else:
                return 'n/a'
            g.broadcast('subset_state')
    elif k == 'edit_nested':
        g = w.pick_group(op[1])
        if g is not None:
            st = g.subset_state
            if isinstance(st, S.MultiOrState):
                kid = st.states[0]
            elif isinstance(st, S.CompositeSubsetState):
                kid = st.state1
            else:
                return 'n/a'
            if 'C05-inplace-nested' in w.guards and id(st) in w.read_states:
                return 'guarded'
            w.detail = 'inplace-edit:%s' % memo_owner(st)
            if True:
                if type(kid) is S.RangeSubsetState:
                    kid.lo = op[2]
                    kid.hi = op[2] + op[3]
                elif type(kid) is S.RoiSubsetState:
                    if isinstance(st, S.MultiOrState):
                        kid.move_to(op[2], op[2] + 1)
                    else:
                        st.move_to(op[2], op[2] + 1)
                elif type(kid) is S.MultiRangeSubsetState:
                    kid.pairs = [(op[2], op[2] + op[3])]
                else:
                    return 'n/a'
                g.broadcast('subset_state')
    elif k == 'add_comp':
        d = w.pick_data(op[1])
        if d is not None:
            w.nx += 1
            w.written = d
            d.add_component(W.values(op[2], d.shape), 'x%d' % w.nx)
    elif k == 'add_link':
        d1, d2 = w.pick_data(op[1]), w.pick_data(op[3])
        if 'C05-link-change' in w.guards and any(memo_owner(st) and id(st) in w.read_states for st in w.tracked_states()):
            return 'guarded'
        if d1 is not None and d1 is not d2:
            a, b = w.pick_cid(d1, op[2], True), w.pick_cid(d2, op[4], True)
            fw, bw = LF.ONE[op[5]]
            link = ComponentLink([a], b, using=fw, inverse=bw)
            dc.add_link(link)
            w.links.append(link)
    elif k == 'remove_link':
        live = [l for l in w.links if any(l is x for x in dc.external_links)]
        if 'C05-link-change' in w.guards and any(memo_owner(st) and id(st) in w.read_states for st in w.tracked_states()):
            return 'guarded'
        if live:
            dc.remove_link(live[op[1] % len(live)])
    elif k == 'swap_link':
        # replace a link by another one with the same end points and a different function, in one link-manager update:
        # the set of reachable attributes stays the same, the values must change
        live = [l for l in w.links if any(l is x for x in dc.external_links)]
        if 'C05-link-change' in w.guards and any(memo_owner(st) and id(st) in w.read_states for st in w.tracked_states()):
            return 'guarded'
        if live:
            old = live[op[1] % len(live)]
            fw, bw = LF.ONE[op[2]]
            new = ComponentLink(list(old.get_from_ids()), old.get_to_id(), using=fw, inverse=bw)
            if op[3]:
                with dc.delay_link_manager_update():
                    dc.remove_link(old)
                    dc.add_link(new)
            else:
                dc.set_links([new if l is old else l for l in dc.external_links])
            w.links.append(new)
            res.probe('link_swapped_same_endpoints')
    elif k == 'rewrite':
        if w.files and 'C05-flood-update' in w.guards and has_flood(w, w.files[0][1]):
            return 'guarded'
        if w.files:
            f = w.files[0]
            f[2] += 10
            write_csv(f[0], f[3], f[4], op[1], drop=op[2])
            os.utime(f[0], (f[2], f[2]))
            w.dirty = True
            res.fault('file_rewritten')
    elif k == 'vanish':
        if w.files and os.path.exists(w.files[0][0]):
            os.remove(w.files[0][0])
            res.fault('file_vanished')
    elif k == 'advance':
        if w.files and w.dirty and 'C05-flood-update' in w.guards and has_flood(w, w.files[0][1]):
            return 'guarded'        # the pending reload would replace the values under a flood fill made since the rewrite
        if w.files:
            import warnings
            with warnings.catch_warnings():
                warnings.simplefilter('ignore')
                nfired = w.clock.advance(op[1])
            res.simtime += op[1]
            if nfired:
                res.fault('poll_timer_fired', nfired)
                if not os.path.exists(w.files[0][0]):
                    res.probe('poll_after_file_vanished')
                elif w.dirty:
                    res.probe('file_reload_fired')
                else:
                    res.probe('poll_tick_no_change')
                w.dirty = False
    elif k == 'check':
        return 'check'
    else:
        raise ValueError(op)
    return 'write'


def clone_state(st):
    """A never-evaluated copy of a selection: new objects at every level of nesting."""
    from glue.core import subset as S
    if isinstance(st, S.MultiOrState):
        return S.MultiOrState([clone_state(x) for x in st.states])
    if isinstance(st, S.InvertState):
        return S.InvertState(clone_state(st.state1))
    if isinstance(st, S.CompositeSubsetState):
        return type(st)(clone_state(st.state1), clone_state(st.state2))
    return st.copy()


def members_of(st):
    return [x for x in (getattr(st, 'state1', None), getattr(st, 'state2', None)) if x is not None] + list(getattr(st, 'states', ()))


def fresh_mask(d, st):
    try:
        return W.mask_of(d, clone_state(st))
    except Exception as e:       # a copy that cannot even be built (flood fill on an attribute that is gone)
        return 'error:%s' % type(e).__name__, None


def has_flood(w, d):
    from glue.core import subset as S

    def walk(st):
        if isinstance(st, S.FloodFillSubsetState):
            return st.data is d
        kids = [getattr(st, 'state1', None), getattr(st, 'state2', None)] + list(getattr(st, 'states', ()))
        return any(walk(x) for x in kids if x is not None)
    return any(walk(st) for st in w.tracked_states())


def install_listener(w, res):
    """K11: a client whose message handlers evaluate the sender's selections, as every viewer layer does.  The reads land
    inside the write that broadcast the message.  When the message says 'the numerical values changed' the dataset is
    consistent again, so what the handler reads must already equal a never-evaluated copy."""
    from glue.core.hub import HubListener
    from glue.core.message import Message, NumericalDataChangedMessage
    from glue.core.data import BaseData
    from glue.core.subset import Subset

    class ReadingListener(HubListener):
        busy = False

        def register_to_hub(self, hub):
            hub.subscribe(self, Message, handler=self.on_message)

        def on_message(self, msg):
            if self.busy:
                return
            d = msg.sender
            if isinstance(d, Subset):
                d = d.data
            if not isinstance(d, BaseData) or d not in w.dc:
                return
            self.busy = True
            try:
                final = isinstance(msg, NumericalDataChangedMessage)
                for g in list(w.dc.subset_groups):
                    st = g.subset_state
                    w.mark_read(st)
                    s1, m1 = W.mask_of(d, st)
                    res.probe('listener_read_inside_write')
                    if final and s1 == 'ok':
                        s2, m2 = fresh_mask(d, st)
                        res.probe('listener_fresh_clone_compared')
                        res.nchecks += 1
                        if s2 == 'ok' and (m1.shape != m2.shape or not np.array_equal(m1, m2)):
                            raise Violation('C05/stale-mask-inside-handler/%s:%s' % (type(msg).__name__, memo_owner(st)),
                                            'dataset %s: a handler of %s reads %s for a %s, a never-evaluated copy of it gives %s' % (
                                                d.label, type(msg).__name__, m1.ravel()[:8].astype(int).tolist(), type(st).__name__,
                                                m2.ravel()[:8].astype(int).tolist()))
            finally:
                self.busy = False

    w.listener = ReadingListener()
    w.listener.register_to_hub(w.dc.hub)


def observe(w):
    from glue.core.exceptions import IncompatibleAttribute
    out = []
    groups = list(w.dc.subset_groups)
    for d in w.dc:
        rec = {'label': d.label, 'shape': list(d.shape), 'vals': [], 'masks': [], 'stats': [], 'hist': [], 'free': [], 'viewer': [], 'members': []}
        for c in d.components:
            try:
                rec['vals'].append([c.label, W.arr_digest(d[c])])
            except IncompatibleAttribute:
                rec['vals'].append([c.label, 'incompatible'])
        ext = []
        for c in d.externally_derivable_components:
            if c not in d.components:
                ext.append(['ext:%s.%s' % (getattr(c.parent, 'label', None), c.label), W.arr_digest(d[c])])
        rec['vals'].extend(sorted(ext))
        nums = [c for c in d.main_components if d.get_kind(c) == 'numerical'][:2]
        for gi, g in enumerate(groups):
            w.mark_read(g.subset_state)
            # members before the whole: in the cold twin they are then evaluated before anything could have written into
            # their cache entries
            for mi, kid in enumerate(members_of(g.subset_state)[:3]):
                ks, km = W.mask_of(d, kid)
                rec['members'].append([gi, mi, W.arr_digest(km) if ks == 'ok' else ks])
            st, m = W.mask_of(d, g.subset_state)
            rec['masks'].append([gi, W.arr_digest(m) if st == 'ok' else st])
            if st == 'ok' and gi > 1 and nums:
                try:
                    h = d.compute_histogram([nums[0]], range=[(-5, 13)], bins=[6], subset_state=g.subset_state)
                    rec['hist'].append([gi, nums[0].label, [float(x) for x in np.asarray(h).ravel()]])
                except Exception as e:
                    rec['hist'].append([gi, nums[0].label, 'error:%s' % type(e).__name__])
            if st != 'ok' or gi > 1:
                continue
            for c in nums:
                try:
                    for stat in ('minimum', 'maximum', 'sum', 'mean'):
                        v = d.compute_statistic(stat, c, subset_state=g.subset_state)
                        rec['stats'].append([gi, c.label, stat, repr(float(v))])
                    h = d.compute_histogram([c], range=[(-5, 13)], bins=[6], subset_state=g.subset_state)
                    rec['hist'].append([gi, c.label, [float(x) for x in np.asarray(h).ravel()]])
                except IncompatibleAttribute:
                    rec['stats'].append([gi, c.label, 'incompatible'])
                except (IndexError, ValueError, TypeError) as e:
                    rec['stats'].append([gi, c.label, 'error:%s' % type(e).__name__])
        for c in nums:
            for stat in ('minimum', 'maximum', 'sum'):
                rec['stats'].append([None, c.label, stat, repr(float(d.compute_statistic(stat, c)))])
        for c in nums[:1]:
            h = d.compute_histogram([c], range=[(-5, 13)], bins=[6])
            rec['hist'].append([None, c.label, [float(x) for x in np.asarray(h).ravel()]])
        for fi, st in enumerate(w.free):
            w.mark_read(st)
            s1, m = W.mask_of(d, st)
            rec['free'].append([fi, W.arr_digest(m) if s1 == 'ok' else s1])
        out.append(rec)
    if getattr(w, 'hv', None) is not None:
        # what the viewer shows (warm world only): [group index or None, attribute, counts], to be compared with the twin's
        # compute_histogram of the same attribute / selection / bins
        from glue.core.subset import Subset
        vs = w.hv.state
        if (vs.hist_x_min, vs.hist_x_max, vs.hist_n_bin) == (-5, 13, 6) and vs.x_att is not None:
            for la in w.hv.layers:
                layer = la.layer
                d = layer.data if isinstance(layer, Subset) else layer
                gi = None
                if isinstance(layer, Subset):
                    gi = [i for i, g in enumerate(groups) if any(layer is x for x in g.subsets)]
                    if not gi:
                        continue
                    gi = gi[0]
                rec = [r for r, dd in zip(out, w.dc) if dd is d]
                if not rec:
                    continue
                try:
                    edges, vals = la.state.histogram
                    rec[0]['viewer'].append([gi, vs.x_att.label, [float(x) for x in np.asarray(vals).ravel()], bool(vs.normalize), bool(vs.cumulative)])
                except Exception as e:
                    pass
    return out


def first_diff(a, b):
    if len(a) != len(b):
        return 'number of datasets %d vs %d' % (len(a), len(b)), 'structure'
    for ra, rb in zip(a, b):
        for key in ('shape', 'vals', 'masks', 'stats', 'hist', 'free', 'members'):
            if ra[key] != rb[key]:
                xa = [x for x in ra[key] if x not in rb[key]]
                xb = [x for x in rb[key] if x not in ra[key]]
                return 'dataset %s %s: warm world %s, cold twin %s' % (ra['label'], key, xa[:2], xb[:2]), key
        for ent in ra['viewer']:
            exp = [h for h in rb['hist'] if h[:2] == ent[:2]]
            if exp and isinstance(exp[0][2], list):
                want = np.array(exp[0][2], dtype=float)
                with np.errstate(all='ignore'):
                    if ent[4]:
                        want = want.cumsum()
                        if ent[3]:
                            want = want / want.max()
                    elif ent[3]:
                        want = want / (want.sum() * 3.0)        # bin width of the fixed (-5, 13, 6) binning
                got = np.array(ent[2], dtype=float)
                if got.shape != want.shape or not np.allclose(got, want, rtol=1e-12, atol=0, equal_nan=True):
                    return 'dataset %s: the histogram viewer shows %s for attribute %s selection %s (normalize=%s cumulative=%s), from the cold twin\'s counts %s' % (
                        ra['label'], ent[2], ent[1], ent[0], ent[3], ent[4], want.tolist()), 'viewer-histogram'
    return None, None


def run_world(case, res, upto, reading, tmp, decisions):
    """Run ops[0:upto] in a fresh world; returns (world, observations at checkpoints)."""
    import glue.core.data_factories.helpers as H
    from glue.config import auto_refresh
    clock = seams.SimClock()
    old_timer = H.get_timer
    H.get_timer = lambda: clock.timer_factory()
    auto_refresh(True)
    try:
        w = CacheWorld(case['knobs'], res, tmp, clock)
        if reading and case['knobs'].get('listener'):
            install_listener(w, res)
            res.fault('hub_reentrant_reader')
        obs = {}
        meta = {'last_write': None, 'last_read': None, 'reads': 0, 'war': 0}
        for i, op in enumerate(case['ops'][:upto]):
            w.detail = None
            try:
                out = apply_op(w, op, res, reading, skip=(not reading and decisions.get(i) == 'guarded'))
            except (ValueError, TypeError, IndexError, KeyError) as e:
                out = 'error:%s' % type(e).__name__
            if reading and out == 'guarded':
                decisions[i] = 'guarded'
            if reading and w.hv is not None:
                # the viewer evaluates every selection of its dataset as soon as it hears of it
                for g in w.dc.subset_groups:
                    w.mark_read(g.subset_state)
            if reading:
                if op[0] in ('new', 'new_file', 'upd', 'upd_from', 'add_comp', 'advance', 'rewrite', 'vanish'):
                    for d in w.pool:
                        if op[0] in ('new', 'new_file') and id(d) in w.vmodel:
                            continue
                        if op[0] in ('upd', 'upd_from', 'add_comp') and d is not w.written:
                            continue
                        if op[0] in ('advance', 'rewrite', 'vanish') and not any(f[1] is d for f in w.files):
                            continue
                        sync_model(w, d)
                check_values(w, op, res)
                if op[0] in ('upd_from', 'src_reshape', 'upd_src', 'advance'):
                    check_pixel_coordinates(w, op, res)
            if reading:
                res.nops += 1
                res.log.append([i, op[0], out])
            if out == 'read':
                if op[0] == 'read_stat' and meta['war'] and reading:
                    res.probe('stat_after_update')
                meta['last_read'] = op[0]
                meta['reads'] += 1
            elif out == 'write':
                meta['last_write'] = w.detail or op[0]
                if meta['reads']:
                    meta['war'] += 1
                    if reading:
                        res.probe('write_after_read')
            elif out == 'check' and reading:
                check_direct_links(w, meta)
                check_fresh_copies(w, meta, res)
                obs[i] = (observe(w), dict(meta), fingerprint(w, meta))
        final = None
        if not reading:
            final = observe(w)
        return w, obs, final
    finally:
        H.get_timer = old_timer
        auto_refresh(False)
        for t in list(clock.heap):
            t[2].active = False


def sync_model(w, d):
    """Record what the last write to ``d`` made of its stored attributes."""
    w.vmodel[id(d)] = (d, dict((c.label, np.array(d.get_component(c).data)) for c in d.main_components))


def check_values(w, op, res):
    """Writes are isolated: the stored attributes of every dataset hold what the last write *to that dataset* put there
    (a write to another dataset that shares array objects with it must not show through)."""
    for d, cols in list(w.vmodel.values()):
        for c in d.main_components:
            exp = cols.get(c.label)
            if exp is None:
                continue
            got = np.asarray(d.get_component(c).data)
            res.nchecks += 1
            same = got.shape == exp.shape and (np.array_equal(got, exp) or (
                got.dtype.kind == 'f' and exp.dtype.kind == 'f' and bool(np.all((got == exp) | (np.isnan(got) & np.isnan(exp))))))
            if not same:
                raise Violation('C05/values-changed-without-a-write/%s' % op[0],
                                'dataset %s attribute %s holds %s, the last write to this dataset put %s' % (
                                    d.label, c.label, got.ravel()[:6].tolist(), exp.ravel()[:6].tolist()))


def check_pixel_coordinates(w, op, res):
    """A derived value with a closed form: pixel coordinate i of a dataset is the index along axis i, whatever happened
    to any other dataset."""
    for d in w.pool:
        for i, cid in enumerate(d.pixel_component_ids):
            try:
                got = np.asarray(d[cid])
            except Exception as e:
                raise Violation('C05/pixel-coordinates-wrong/%s' % op[0], 'dataset %s %s: %s' % (d.label, cid.label, type(e).__name__))
            exp = np.indices(d.shape)[i] if d.ndim else np.zeros(())
            res.nchecks += 1
            if got.shape != exp.shape or not np.array_equal(got, exp):
                raise Violation('C05/pixel-coordinates-wrong/%s' % op[0], 'dataset %s (shape %s) %s has shape %s = %s' % (
                    d.label, list(d.shape), cid.label, list(got.shape), got.ravel()[:8].tolist()))


def check_fresh_copies(w, meta, res):
    """Independent of the twin (which builds its objects before the writes, so a result computed eagerly at construction
    is equally old in both worlds): every selection must evaluate like a copy of itself made just now."""
    for d in w.dc:
        for st in w.tracked_states():
            s1, m1 = W.mask_of(d, st)
            if s1 != 'ok':
                continue
            w.mark_read(st)
            s2, m2 = fresh_mask(d, st)
            res.nchecks += 1
            if s2 == 'ok' and (m1.shape != m2.shape or not np.array_equal(m1, m2)):
                # reported after the twin comparison (whose signatures name the same staleness more precisely)
                if w.fresh_violation is None:
                    w.fresh_violation = ('C05/stale-vs-fresh-copy/after:%s' % meta['last_write'],
                                         'dataset %s: a %s evaluates to %s, a copy of it made now to %s' % (
                                             d.label, type(st).__name__, m1.ravel()[:8].astype(int).tolist(),
                                             m2.ravel()[:8].astype(int).tolist()))
                return


def check_direct_links(w, meta):
    """Independent part of the oracle (the twin shares write-side caches): an attribute that a dataset reaches through a
    registered link directly from one of its own attributes has cost 1, the minimum, so its value must be the function of
    one of the *currently registered* direct links applied to the current input values."""
    dc = w.dc
    live = [l for l in w.links if any(l is x for x in dc.external_links)]
    for d in dc:
        own = list(d.components)
        targets = {}
        for l in live:
            a, b = l.get_from_ids()[0], l.get_to_id()
            if any(a is c for c in own) and not any(b is c for c in own):
                targets.setdefault(id(b), (b, []))[1].append((l.get_using(), a))
            if l.get_inverse() is not None and any(b is c for c in own) and not any(a is c for c in own):
                targets.setdefault(id(a), (a, []))[1].append((l.get_inverse(), b))
        for cid, cands in targets.values():
            try:
                got = np.asarray(d[cid], dtype=float)
            except Exception:
                continue
            ok = False
            for f, src in cands:
                exp = np.asarray(f(np.asarray(d[src], dtype=float)), dtype=float)
                if exp.shape == got.shape and np.all((exp == got) | (np.isnan(exp) & np.isnan(got))):
                    ok = True
            if not ok:
                raise Violation('C05/stale-linked-value/after:%s' % meta['last_write'],
                                'dataset %s reads %s through no currently registered direct link (%d candidates)' % (d.label, cid.label, len(cands)))


def fingerprint(w, meta):
    classes = sorted(type(g.subset_state).__name__ for g in w.dc.subset_groups)
    return [meta['last_write'], meta['last_read'], len(w.dc), len(w.dc.subset_groups), classes, min(meta['war'], 4)]


def execute(case, res):
    tmp = tempfile.mkdtemp(prefix='verif-c05-')
    try:
        env_seed = case.get('env_seed', 0)
        decisions = {}
        w, obs, _ = run_world(case, res, len(case['ops']), True, os.path.join(tmp, 'A'), decisions)
        fresh_violation = w.fresh_violation
        del w
        checkpoints = sorted(obs)[:3]
        for ci, i in enumerate(checkpoints):
            oa, meta, fp = obs[i]
            seams.reset_globals()
            seams.begin_run(env_seed)
            wb, _, ob = run_world(case, res, i, False, os.path.join(tmp, 'B%d' % ci), decisions)
            del wb
            res.nchecks += 1
            if meta['war'] and any(r['masks'] for r in oa):
                res.nontrivial = True
                res.fp(*fp)
            nv = sum(len(r['viewer']) for r in oa)
            if nv:
                res.probe('viewer_histogram_compared', nv)
            d, key = first_diff(oa, ob)
            res.log.append(['checkpoint', i, W.arr_digest(np.frombuffer(repr(oa).encode(), dtype=np.uint8))])
            if d:
                raise Violation('C05/stale-%s/after:%s' % (key, meta['last_write']), 'checkpoint at op %d: %s' % (i, d))
        if fresh_violation is not None:
            raise Violation(*fresh_violation)
    finally:
        plt = __import__('sys').modules.get('matplotlib.pyplot')
        if plt is not None:
            plt.close('all')
        shutil.rmtree(tmp, ignore_errors=True)
