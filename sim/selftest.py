"""Self-tests of the simulator itself (DESIGN.md section 9).

  selftest sensitivity [ID|name…]   every seeded change under seeded/ must make the recorded checks report a VIOLATION
  selftest specificity [ID|name…]   every property-preserving change under benign/ must leave the recorded checks quiet
  selftest determinism <PROP> [n]   event-log digests must not depend on: repetition in one interpreter,
                                    position in the process (first vs after other runs), interpreter
                                    instance, number of workers / block layout; and verdicts must not
                                    depend on PYTHONHASHSEED.
"""
import json
import os
import sys
from concurrent.futures import ThreadPoolExecutor

from sim import main as M


def _explore(prop, tier, vseed, start, count, hs, guards='[]'):
    doc, err, rc = M.run_worker(['explore', prop, tier, vseed, start, count, guards, 'digests'], hs)
    if doc is None:
        raise RuntimeError('worker failed: %s' % err)
    return doc


def determinism(prop, n=400, tier='quick'):
    vseed = int(os.environ.get('VERIF_SEED', '0'))
    findings = M.load_findings(prop)
    guards = json.dumps(sorted(set(g for f in findings if f['status'] == 'open' for g in f.get('guards', []))))
    hs = 12345
    jobs = {
        'A_one_process': [(0, n, hs)],
        'B_same_again': [(0, n, hs)],
        'C_16_blocks': [(i * (n // 16), n // 16, hs) for i in range(16)],
        'D_reversed_halves': [(n // 2, n - n // 2, hs), (0, n // 2, hs)],
        'E_other_hashseed': [(0, n, 999)],
    }
    results = {}
    flat = [(name, j) for name, js in jobs.items() for j in js]
    with ThreadPoolExecutor(max_workers=M.workers()) as ex:
        docs = list(ex.map(lambda nj: _explore(prop, tier, vseed, nj[1][0], nj[1][1], nj[1][2], guards), flat))
    for (name, j), doc in zip(flat, docs):
        d = results.setdefault(name, {'dig': {}, 'viol': {}, 'herr': 0})
        for idx, dg in doc['digests']:
            d['dig'][idx] = dg
        for v in doc['violations']:
            d['viol'][v['idx']] = v['sigs']
        d['herr'] += len(doc['harness_errors'])
        d.setdefault('nviol', 0)
        d['nviol'] += doc['nviol']
    ok = True
    base = results['A_one_process']
    for name in ('B_same_again', 'C_16_blocks', 'D_reversed_halves'):
        diff = [i for i in base['dig'] if results[name]['dig'].get(i) != base['dig'][i]]
        print('determinism %s: %s vs A: %d/%d digests differ%s' % (prop, name, len(diff), len(base['dig']),
                                                                   (' e.g. idx %s' % diff[:5]) if diff else ''))
        if diff:
            ok = False
    e = results['E_other_hashseed']
    print('determinism %s: other PYTHONHASHSEED: violating runs %d vs %d (verdict must match), digests differing: %d' % (
        prop, e['nviol'], base['nviol'], len([i for i in base['dig'] if e['dig'].get(i) != base['dig'][i]])))
    if e['nviol'] != base['nviol']:
        ok = False
    if any(r['herr'] for r in results.values()):
        print('determinism %s: harness errors present' % prop)
        ok = False
    print('determinism %s: %s' % (prop, 'OK' if ok else 'FAILED'))
    return ok


def sensitivity(only=None):
    """Apply every confirmed seeded change (seeded/<id>/patch.diff) to a scratch worktree of /repo outside /repo and
    /verif, run the checks that are recorded as catching it, and require a VIOLATION.  The scratch tree is removed afterwards."""
    import glob
    import subprocess
    import tempfile
    root = M.ROOT
    scratch = tempfile.mkdtemp(prefix='verif-sens-')
    wt = os.path.join(scratch, 'repo')
    subprocess.check_call(['git', '-C', '/repo', 'worktree', 'add', '-q', '--detach', wt, 'HEAD'])
    ok = True
    try:
        for meta_path in sorted(glob.glob(os.path.join(root, 'seeded', '*', 'meta.json'))):
            meta = json.load(open(meta_path))
            name = os.path.basename(os.path.dirname(meta_path))
            if only and name not in only and meta['property'] not in only:
                continue
            if not meta.get('confirmed') or not meta.get('caught_by'):
                print('sensitivity %s: skipped (confirmed=%s caught_by=%s)' % (name, meta.get('confirmed'), meta.get('caught_by')))
                continue
            subprocess.check_call(['git', '-C', wt, 'checkout', '-q', '--', '.'])
            ap = subprocess.run(['git', '-C', wt, 'apply', os.path.join(os.path.dirname(meta_path), 'patch.diff')])
            if ap.returncode != 0:
                print('sensitivity %s: patch no longer applies to /repo HEAD' % name)
                ok = False
                continue
            for cid in meta['caught_by']:
                env = dict(os.environ, VERIF_REPO=wt, VERIF_MAX_MINIMISE='1')
                r = subprocess.run([os.path.join(root, 'check'), cid, 'quick'], env=env, stdout=subprocess.PIPE, stderr=subprocess.STDOUT)
                caught = r.returncode == 1 and b'VIOLATION property=' in r.stdout
                print('sensitivity %s vs %s: %s' % (name, cid, 'caught' if caught else 'MISSED (exit %d)' % r.returncode))
                ok = ok and caught
    finally:
        subprocess.call(['git', '-C', '/repo', 'worktree', 'remove', '--force', wt])
        import shutil
        shutil.rmtree(scratch, ignore_errors=True)
    print('sensitivity: %s' % ('OK' if ok else 'FAILED'))
    return ok


def specificity(only=None):
    """Apply every property-preserving change under benign/<id>/patch.diff (legitimate refactorings and legal behaviour changes
    written by sub-agents that saw only the property text) to a scratch worktree and require every recorded check to stay quiet."""
    import glob
    import subprocess
    import tempfile
    root = M.ROOT
    scratch = tempfile.mkdtemp(prefix='verif-spec-')
    wt = os.path.join(scratch, 'repo')
    subprocess.check_call(['git', '-C', '/repo', 'worktree', 'add', '-q', '--detach', wt, 'HEAD'])
    ok = True
    try:
        for meta_path in sorted(glob.glob(os.path.join(root, 'benign', '*', 'meta.json'))):
            meta = json.load(open(meta_path))
            name = os.path.basename(os.path.dirname(meta_path))
            if only and name not in only and meta['property'] not in only:
                continue
            if not meta.get('accepted', True):
                print('specificity %s: skipped (%s)' % (name, meta.get('verdict', 'not accepted as property-preserving')))
                continue
            subprocess.check_call(['git', '-C', wt, 'checkout', '-q', '--', '.'])
            subprocess.check_call(['git', '-C', wt, 'clean', '-qfd'])
            ap = subprocess.run(['git', '-C', wt, 'apply', os.path.join(os.path.dirname(meta_path), 'patch.diff')])
            if ap.returncode != 0:
                print('specificity %s: patch no longer applies to /repo HEAD' % name)
                continue
            for cid in meta['checks']:
                env = dict(os.environ, VERIF_REPO=wt, VERIF_MAX_MINIMISE='1')
                r = subprocess.run([os.path.join(root, 'check'), cid, 'quick'], env=env, stdout=subprocess.PIPE, stderr=subprocess.STDOUT)
                quiet = r.returncode == 0 and b'VIOLATION property=' not in r.stdout
                print('specificity %s vs %s: %s' % (name, cid, 'quiet' if quiet else 'ALARM (exit %d)' % r.returncode))
                ok = ok and quiet
    finally:
        subprocess.call(['git', '-C', '/repo', 'worktree', 'remove', '--force', wt])
        import shutil
        shutil.rmtree(scratch, ignore_errors=True)
    print('specificity: %s' % ('OK' if ok else 'FAILED'))
    return ok


def main(argv):
    if argv and argv[0] == 'specificity':
        return 0 if specificity(set(a for a in argv[1:]) or None) else 2
    if argv and argv[0] == 'sensitivity':
        return 0 if sensitivity(set(a for a in argv[1:]) or None) else 2
    if not argv or argv[0] != 'determinism':
        print(__doc__)
        return 2
    props = [a.upper() for a in argv[1:] if not a.isdigit()]
    nums = [int(a) for a in argv[1:] if a.isdigit()]
    n = nums[0] if nums else 400
    if not props:
        man = json.load(open(os.path.join(M.ROOT, 'MANIFEST.json')))
        props = [c['property_id'] for c in man['checks']]
    ok = True
    for p in props:
        ok = determinism(p, n) and ok
    return 0 if ok else 2
