"""Engine E2: the session world.

A World owns one real glue Application / Session / DataCollection / Hub and a
pool of datasets, and executes JSON-able operations whose arguments are
symbolic handles (small ints resolved modulo the current number of live
objects at execution time).  An op list is therefore executable as any
sub-list (needed by delta debugging) and is the replay file.

Everything the world does is a pure function of (op list, knobs, env_seed).
"""
import gc
import operator
import os
import shutil
import tempfile

import numpy as np

from sim.core import Violation

EXPECTED = 'expected'     # documented argument errors
OK = 'ok'


class OpCrash(Exception):
    """An operation raised something that is not a documented rejection."""

    def __init__(self, op, exc):
        Exception.__init__(self, '%s raised %s: %s' % (op, type(exc).__name__, exc))
        self.op = op
        self.exc = exc


# ----------------------------------------------------------------------------- values

def values(vs, shape, kind='int', special=False):
    """Deterministic small-integer valued arrays (exact under x2^n and +k)."""
    rs = np.random.RandomState(vs & 0x7fffffff)
    if kind == 'int':
        a = rs.randint(-4, 13, size=shape).astype(float)
    elif kind == 'intdtype':
        a = rs.randint(-4, 13, size=shape).astype(np.int64)
    elif kind == 'pos':
        a = rs.randint(1, 13, size=shape).astype(float)
    elif kind == 'cat':
        cats = np.array(['a', 'b', 'c', 'dd', 'e'])
        a = cats[rs.randint(0, 5, size=shape)]
    else:
        raise ValueError(kind)
    if special and a.dtype.kind == 'f' and a.size:
        flat = a.reshape(-1)
        n = rs.randint(0, 3)
        for _ in range(n):
            flat[rs.randint(0, flat.size)] = [np.nan, np.inf, -np.inf][rs.randint(0, 3)]
    return a


SHAPES = [(5,), (7,), (4,), (3, 4), (4, 3), (2, 3), (2, 3, 4), (3, 2, 2), (6,), (1,), (2, 2)]


# ----------------------------------------------------------------------------- recipes -> subset states

INEQ = [operator.gt, operator.ge, operator.lt, operator.le, operator.eq, operator.ne]


def gen_leaf(rng, kinds=None):
    kinds = kinds or ['ineq', 'range', 'mrange', 'roi', 'mask', 'slice', 'elem', 'empty']
    k = rng.pick(kinds)
    d, c = rng.randrange(8), rng.randrange(8)
    if k == 'ineq':
        return ['ineq', d, c, rng.randrange(6), rng.randrange(-3, 12) + rng.pick([0, 0.5])]
    if k == 'ineq2':
        return ['ineq2', d, c, rng.randrange(6), rng.randrange(8)]        # attribute compared with attribute
    if k == 'range':
        lo = rng.randrange(-4, 10) + 0.5
        return ['range', d, c, lo, lo + rng.randrange(0, 8)]
    if k == 'mrange':
        pairs = []
        for _ in range(rng.randrange(1, 4)):
            lo = rng.randrange(-4, 10) + 0.5
            pairs.append([lo, lo + rng.pick([-3, -1, 0, 1, 2, 3, 4, 4])])      # a reversed pair is an empty range
        return ['mrange', d, c, pairs]
    if k == 'roi':
        shape = rng.pick(['rect', 'circle', 'poly', 'ellipse', 'xrange', 'yrange'])
        x0 = rng.randrange(-3, 8) + 0.5
        y0 = rng.randrange(-3, 8) + 0.5
        return ['roi', d, c, rng.randrange(8), shape, [x0, y0, rng.randrange(1, 7), rng.randrange(1, 7)]]
    if k == 'mask':
        return ['mask', d, rng.randrange(1000)]
    if k == 'slice':
        return ['slice', d, [[rng.randrange(0, 3), rng.randrange(1, 5), rng.randrange(1, 3)]
                             for _ in range(rng.randrange(1, 3))]]
    if k == 'elem':
        return ['elem', d, [rng.randrange(0, 40) for _ in range(rng.randrange(0, 5))], rng.chance(0.7)]
    if k == 'catroi':
        return ['catroi', d, c, [rng.pick(['a', 'b', 'c', 'dd', 'e', 'zz']) for _ in range(rng.randrange(0, 4))]]
    if k == 'cat':
        return ['cat', d, c, [rng.randrange(0, 5) for _ in range(rng.randrange(0, 4))]]
    if k == 'roix':     # ROI classes beyond the basic ones
        shape = rng.pick(['annulus', 'rotrect', 'rotellipse', 'path', 'range'])
        return ['roi', d, c, rng.randrange(8), shape, [rng.randrange(-3, 8) + 0.5, rng.randrange(-3, 8) + 0.5, rng.randrange(1, 7), rng.randrange(1, 7)]]
    if k == 'cat2d':
        return ['cat2d', d, {'a': ['b', 'c'], 'dd': ['a']} if rng.chance(0.5) else {'e': ['e', 'a']}]
    if k == 'catmr':
        return ['catmr', d, c, {'a': [[-3.5, 2.5]], 'c': [[0.5, 4.5], [7.5, 11.5]]}]
    if k == 'flood':
        return ['flood', d, c, [rng.randrange(0, 3) for _ in range(3)], rng.pick([1.5, 2.0, 4.0])]
    if k == 'roi3d':
        return ['roi3d', d, c, rng.randrange(8), rng.randrange(8), rng.pick(['rect', 'circle']),
                [rng.randrange(-3, 8) + 0.5, rng.randrange(-3, 8) + 0.5, rng.randrange(1, 7), rng.randrange(1, 7)]]
    if k == 'roind':
        return ['roind', d, c, rng.randrange(8), rng.pick(['rect', 'poly']),
                [rng.randrange(-3, 8) + 0.5, rng.randrange(-3, 8) + 0.5, rng.randrange(1, 7), rng.randrange(1, 7)]]
    return ['empty']


def gen_recipe(rng, depth=2, kinds=None, multior=True):
    if depth <= 0 or rng.chance(0.35):
        return gen_leaf(rng, kinds)
    k = rng.wpick([('and', 3), ('or', 3), ('xor', 2), ('not', 2), ('multior', 1 if multior else 0)])
    if k == 'not':
        return ['not', gen_recipe(rng, depth - 1, kinds, multior)]
    if k == 'multior':
        return ['multior', [gen_recipe(rng, depth - 1, kinds, multior) for _ in range(rng.randrange(1, 4))]]
    return [k, gen_recipe(rng, depth - 1, kinds, multior), gen_recipe(rng, depth - 1, kinds, multior)]


def build_roi(shape, p):
    from glue.core import roi as R
    x0, y0, a, b = p
    if shape == 'rect':
        return R.RectangularROI(x0, x0 + a, y0, y0 + b)
    if shape == 'circle':
        return R.CircularROI(x0, y0, a + 0.25)
    if shape == 'ellipse':
        return R.EllipticalROI(x0, y0, a + 0.25, b + 0.25)
    if shape == 'poly':
        return R.PolygonalROI([x0, x0 + a, x0 + a + 0.25, x0 - 0.25], [y0, y0 - 0.25, y0 + b, y0 + b + 0.25])
    if shape == 'xrange':
        return R.XRangeROI(x0, x0 + a)
    if shape == 'yrange':
        return R.YRangeROI(y0, y0 + b)
    if shape == 'annulus':
        return R.CircularAnnulusROI(x0, y0, a + 0.25, a + b + 0.75)
    if shape == 'rotrect':
        return R.RectangularROI(x0, x0 + a, y0, y0 + b, theta=0.5)
    if shape == 'rotellipse':
        return R.EllipticalROI(x0, y0, a + 0.25, b + 0.25, theta=0.75)
    if shape == 'point':
        return R.PointROI(x0, y0)
    if shape == 'path':
        return R.Path([x0, x0 + a, x0 + a + 0.25], [y0, y0 - 0.25, y0 + b])
    if shape == 'range':
        return R.RangeROI('x' if a % 2 else 'y', x0, x0 + b)
    raise ValueError(shape)


class World(object):
    """One simulated session."""

    def __init__(self, knobs, res, tmp=None):
        from glue.core.application_base import Application
        from glue.core.data_collection import DataCollection
        self.knobs = knobs
        self.res = res
        self.app = self.make_app(DataCollection())
        self.pool = []          # every dataset created or restored in this run that is still referenced
        self.cms = []           # open delay windows: (kind, cm)
        self.tmp = tmp
        if tmp is not None:
            os.makedirs(tmp, exist_ok=True)
        self.nsave = 0
        self.ndata = 0
        self.log = res.log
        self.cmdlog = []        # model of the undo history: what each executed command did
        self.redolog = []
        self.ncmds = 0
        self.guards = set(knobs.get('guards', []))
        self.prop = knobs.get('prop', 'C??')

    # -- plumbing
    def make_app(self, dc):
        from glue.core.application_base import Application
        return Application(dc)

    @property
    def dc(self):
        return self.app.data_collection

    @property
    def hub(self):
        return self.app.session.hub

    @property
    def session(self):
        return self.app.session

    def quiescent(self):
        return not self.cms

    def live(self):
        return list(self.dc)

    def pick_data(self, h):
        ds = self.live()
        return ds[h % len(ds)] if ds else None

    def pick_pool(self, h):
        return self.pool[h % len(self.pool)] if self.pool else None

    def pick_group(self, h):
        gs = self.dc.subset_groups
        return gs[h % len(gs)] if gs else None

    def pick_cid(self, data, h, numeric_only=False):
        cids = self.cids_of(data, numeric_only)
        return cids[h % len(cids)] if cids else None

    def cids_of(self, data, numeric_only=False):
        cids = list(data.components)
        if numeric_only:
            cids = [c for c in cids if data.get_kind(c) == 'numerical']
        return cids

    # -- datasets
    def new_data(self, shape_i, ncomp, vs, cat=False, coords=0, special=False):
        from glue.core.data import Data
        shape = SHAPES[shape_i % len(SHAPES)]
        self.ndata += 1
        d = Data(label='d%d' % self.ndata)
        for j in range(max(1, ncomp)):
            d.add_component(values(vs + j, shape, 'int', special), 'c%d_%d' % (self.ndata, j))
        if cat and len(shape) == 1:
            d.add_component(values(vs + 77, shape, 'cat'), 'k%d' % self.ndata)
        if coords:
            d.coords = make_coords(coords, len(shape))
        self.pool.append(d)
        return d

    # -- subset states from recipes
    def build_state(self, r):
        from glue.core import subset as S
        k = r[0]
        if k == 'empty':
            return S.SubsetState()
        if k in ('and', 'or', 'xor'):
            a, b = self.build_state(r[1]), self.build_state(r[2])
            return {'and': operator.and_, 'or': operator.or_, 'xor': operator.xor}[k](a, b)
        if k == 'not':
            return ~self.build_state(r[1])
        if k == 'multior':
            return S.MultiOrState([self.build_state(x) for x in r[1]])
        d = self.pick_data(r[1])
        if d is None:
            return S.SubsetState()
        if k == 'ineq':
            cid = self.pick_cid(d, r[2], True)
            return S.InequalitySubsetState(cid, r[4], INEQ[r[3] % 6])
        if k == 'ineq2':
            return S.InequalitySubsetState(self.pick_cid(d, r[2], True), self.pick_cid(d, r[4], True), INEQ[r[3] % 6])
        if k == 'range':
            return S.RangeSubsetState(r[3], r[4], self.pick_cid(d, r[2], True))
        if k == 'mrange':
            return S.MultiRangeSubsetState([tuple(p) for p in r[3]], self.pick_cid(d, r[2], True))
        if k == 'roi':
            return S.RoiSubsetState(self.pick_cid(d, r[2], True), self.pick_cid(d, r[3], True), build_roi(r[4], r[5]))
        if k == 'mask':
            m = np.random.RandomState(r[2]).randint(0, 2, size=d.shape).astype(bool)
            return S.MaskSubsetState(m, d.pixel_component_ids)
        if k == 'slice':
            sl = [slice(a, a + b, c) for a, b, c in r[2]][:d.ndim]
            return S.SliceSubsetState(d, sl)
        if k == 'elem':
            idx = sorted(set(i % max(1, d.size) for i in r[2]))
            return S.ElementSubsetState(indices=np.array(idx, dtype=int), data=d if r[3] else None)
        if k == 'catroi':
            from glue.core.roi import CategoricalROI
            cats = [c for c in d.components if d.get_kind(c) == 'categorical']
            if not cats:
                return S.SubsetState()
            return S.CategoricalROISubsetState(att=cats[r[2] % len(cats)], roi=CategoricalROI(r[3]))
        if k == 'cat':
            cats = [c for c in d.components if d.get_kind(c) == 'categorical']
            if not cats:
                return S.SubsetState()
            return S.CategorySubsetState(cats[r[2] % len(cats)], r[3])
        if k == 'cat2d':
            cats = [c for c in d.components if d.get_kind(c) == 'categorical']
            if not cats:
                return S.SubsetState()
            return S.CategoricalROISubsetState2D(r[2], cats[0], cats[-1])
        if k == 'catmr':
            cats = [c for c in d.components if d.get_kind(c) == 'categorical']
            if not cats:
                return S.SubsetState()
            return S.CategoricalMultiRangeSubsetState(dict((kk, [tuple(p) for p in v]) for kk, v in r[3].items()),
                                                      cats[0], self.pick_cid(d, r[2], True))
        if k == 'flood':
            mains = [c for c in d.main_components if d.get_kind(c) == 'numerical']
            if not mains:
                return S.SubsetState()
            start = tuple(i % n for i, n in zip(r[3], d.shape))
            return S.FloodFillSubsetState(d, mains[r[2] % len(mains)], start, r[4])
        if k == 'roi3d':
            from glue.core.roi import Projected3dROI
            proj = np.array([[1., 0, 0, 0], [0, 1., 0, 0], [0, 0, 1., 0], [0, 0, 0, 1.]])
            return S.RoiSubsetState3d(self.pick_cid(d, r[2], True), self.pick_cid(d, r[3], True), self.pick_cid(d, r[4], True),
                                      Projected3dROI(build_roi(r[5], r[6]), proj))
        if k == 'roind':
            return S.RoiSubsetStateNd([self.pick_cid(d, r[2], True), self.pick_cid(d, r[3], True)], build_roi(r[4], r[5]))
        if k == 'roipix':
            # a region drawn on two pixel axes of d (what an image viewer produces)
            pix = d.pixel_component_ids
            if d.ndim < 2:
                return S.RangeSubsetState(r[5][0], r[5][0] + r[5][2], pix[0])
            a1 = r[2] % d.ndim
            a2 = (a1 + 1 + r[3] % (d.ndim - 1)) % d.ndim
            return S.RoiSubsetStateNd([pix[a1], pix[a2]], build_roi(r[4], r[5]))
        raise ValueError(r)

    # -- delay windows (K2)
    def delay_open(self, kind):
        if len(self.cms) >= 3:
            return
        cm = self.hub.delay_callbacks() if kind == 'hub' else self.dc.delay_link_manager_update()
        cm.__enter__()
        self.cms.append((kind, cm))
        self.res.fault('delay_window_' + kind)

    def delay_close(self, raising=False):
        if not self.cms:
            return
        kind, cm = self.cms.pop()
        if raising:
            exc = RuntimeError('scheduler-raised inside delay window')
            try:
                cm.__exit__(RuntimeError, exc, None)
            except RuntimeError as e:
                if e is not exc:
                    raise
            self.res.fault('delay_window_exception_exit')
        else:
            cm.__exit__(None, None, None)

    def close_all_windows(self):
        while self.cms:
            self.delay_close(False)

    # -- crash / restart (K5)
    def save(self, include_data=True, absolute=True):
        self.nsave += 1
        path = os.path.join(self.tmp, 's%d.glu' % self.nsave)
        self.app.save_session(path, include_data=include_data, absolute_paths=absolute)
        return path

    def restore(self, path):
        app = type(self.app).restore_session(path)
        return app

    def rebind(self, app):
        """Continue the run on a restored application; every in-memory object of the old one is dropped."""
        self.app = app
        self.pool = list(app.data_collection)
        self.cms = []
        self.cmdlog = []
        self.redolog = []
        gc.collect()


def make_coords(kind, ndim):
    from glue.core.coordinates import IdentityCoordinates, AffineCoordinates
    if kind == 1:
        return IdentityCoordinates(n_dim=ndim)
    m = np.eye(ndim + 1)
    for i in range(ndim):
        m[i, i] = 2.0
        m[i, ndim] = float(i + 1)
    return AffineCoordinates(m)


# ----------------------------------------------------------------------------- observation

def arr_digest(a):
    """Canonical, NaN-aware digest of an array (shape, dtype kind, values)."""
    import hashlib
    a = np.asarray(a)
    if a.dtype.kind in 'fc':
        b = np.ascontiguousarray(a.astype(np.float64))
        b = np.where(np.isnan(b), np.float64('nan'), b) + 0.0   # canonical NaN, -0.0 -> 0.0
        data = b.tobytes()
        kind = 'f'
    elif a.dtype.kind in 'iub':
        data = np.ascontiguousarray(a.astype(np.int64)).tobytes()
        kind = 'b' if a.dtype.kind == 'b' else 'i'
    elif a.dtype.kind == 'M':
        data = np.ascontiguousarray(a.astype('datetime64[ns]').astype(np.int64)).tobytes()
        kind = 'M'
    else:
        data = '\x00'.join(str(x) for x in a.reshape(-1)).encode()
        kind = 's'
    return '%s%s:%s' % (kind, list(a.shape), hashlib.sha1(data).hexdigest()[:12])


def mask_of(subset_or_data, state=None):
    """('ok', mask) | ('incompatible', None) | ('error', repr)"""
    from glue.core.exceptions import IncompatibleAttribute
    try:
        if state is None:
            m = subset_or_data.to_mask()
        else:
            m = subset_or_data.get_mask(state)
        return 'ok', np.array(m, dtype=bool)
    except IncompatibleAttribute:
        return 'incompatible', None
    except Exception as e:      # the observation records that (and how) evaluation fails
        return 'error:%s' % type(e).__name__, None


def style_of(style):
    return {k: getattr(style, k) for k in ('color', 'alpha', 'linewidth', 'markersize', 'marker', 'linestyle')
            if hasattr(style, k)}


# ----------------------------------------------------------------------------- common operations

MODES = ['ReplaceMode', 'AndMode', 'OrMode', 'XorMode', 'AndNotMode', 'NewMode']
LABELS = ['alpha', 'beta', 'gamma', 'd1', 'Subset 1', 'x']
STYLE_VALUES = {'color': ['#ff0000', '#00ff00', '#0000ff', '#123456'], 'alpha': [0.2, 0.5, 0.9, 0, 1.0, 0.0],
                'markersize': [3, 7, 11, 0], 'linewidth': [1, 2.5, 4, 0], 'marker': ['o', 's', '^', '+'],
                'linestyle': ['solid', 'dashed', 'dotted']}


def exec_common(w, op):
    """Execute one of the operations shared by the session-world checks.
    Returns an outcome string; raises OpCrash for undocumented exceptions."""
    from glue.core import command as C
    from glue.core import edit_subset_mode as E
    k = op[0]
    dc = w.dc
    try:
        if k == 'new':
            w.new_data(*op[1:])
            return OK
        if k == 'append':
            d = w.pick_pool(op[1])
            if d is not None:
                dc.append(d)
            return OK
        if k == 'remove':
            d = w.pick_data(op[1])
            if d is not None:
                dc.remove(d)
            return OK
        if k == 'clear':
            dc.clear()
            return OK
        if k == 'merge':
            d1, d2 = w.pick_data(op[1]), w.pick_data(op[2])
            if d1 is None or d1 is d2:
                return OK
            try:
                m = dc.merge(d1, d2)
            except ValueError:
                return EXPECTED
            w.pool.append(m)
            return OK
        if k == 'setitem':
            d = w.pick_pool(op[2])
            if d is not None:
                dc[LABELS[op[1] % len(LABELS)]] = d
            return OK
        if k == 'extend_list':
            # several datasets in one call, possibly naming one of them twice, as a list or as another collection's content
            ds = [w.pick_pool(h) for h in op[1]]
            ds = [d for d in ds if d is not None]
            if ds:
                if len(ds) != len(set(id(d) for d in ds)):
                    w.res.probe('extend_with_repeated_dataset')
                if op[2]:
                    dc.append(ds)
                else:
                    dc.extend(ds)
            return OK
        if k == 'extend_junk':
            d = w.pick_pool(op[1])
            try:
                dc.extend(([d] if d is not None else []) + ['junk'])
            except TypeError:
                w.res.fault('rejected_call')
                return EXPECTED
            return OK
        if k == 'append_junk':
            try:
                dc.append('junk')
            except TypeError:
                w.res.fault('rejected_call')
                return EXPECTED
            return OK
        if k == 'new_group':
            dc.new_subset_group(subset_state=w.build_state(op[1]))
            return OK
        if k == 'remove_group':
            g = w.pick_group(op[1])
            if g is not None:
                dc.remove_subset_group(g)
            return OK
        if k == 'set_state':
            g = w.pick_group(op[1])
            if g is not None:
                g.subset_state = w.build_state(op[2])
            return OK
        if k == 'set_label':
            g = w.pick_group(op[1])
            if g is not None:
                g.label = LABELS[op[2] % len(LABELS)]
            return OK
        if k == 'set_style':
            g = w.pick_group(op[1])
            if g is not None:
                vals = STYLE_VALUES[op[2]]
                setattr(g.style, op[2], vals[op[3] % len(vals)])
            return OK
        if k == 'set_edit':
            gs = dc.subset_groups
            w.session.edit_subset_mode.edit_subset = [gs[i % len(gs)] for i in op[1]] if gs else []
            return OK
        if k == 'set_mode':
            w.session.edit_subset_mode.mode = getattr(E, MODES[op[1] % len(MODES)])
            return OK
        if k == 'do_add':
            d = w.pick_pool(op[1])
            if d is not None:
                w.app.do(C.AddData(data=d))
                w.cmdlog.append({'kind': 'AddData'})
                del w.cmdlog[:-C.MAX_UNDO]
                w.ncmds += 1
                w.redolog = []
            return OK
        if k == 'do_remove':
            d = w.pick_pool(op[1])
            if d is not None:
                w.app.do(C.RemoveData(data=d))
                w.cmdlog.append({'kind': 'RemoveData'})
                del w.cmdlog[:-C.MAX_UNDO]
                w.ncmds += 1
                w.redolog = []
            return OK
        if k in ('do_apply', 'do_roi'):
            ngroups = len(dc.subset_groups)
            mode = getattr(E, MODES[op[2] % len(MODES)]) if op[2] is not None else None
            if k == 'do_apply':
                kwargs = {}
                if mode is not None:
                    kwargs['override_mode'] = mode
                cmd = C.ApplySubsetState(data_collection=dc, subset_state=w.build_state(op[1]), **kwargs)
            else:
                from glue.core.subset import roi_to_subset_state
                d = w.pick_data(op[3])
                if d is None:
                    return OK
                xatt, yatt = w.pick_cid(d, op[4], True), w.pick_cid(d, op[5], True)
                esm = w.session.edit_subset_mode

                def apply_func(roi, xatt=xatt, yatt=yatt, esm=esm, dc=dc, mode=mode):
                    esm.update(dc, roi_to_subset_state(roi, x_att=xatt, y_att=yatt), override_mode=mode)
                cmd = C.ApplyROI(data_collection=dc, roi=build_roi(op[1][0], op[1][1]), apply_func=apply_func)
            w.app.do(cmd)
            w.cmdlog.append({'kind': type(cmd).__name__, 'created_group': len(dc.subset_groups) > ngroups})
            del w.cmdlog[:-C.MAX_UNDO]
            w.ncmds += 1
            w.redolog = []
            return OK
        if k == 'undo':
            if not w.cmdlog:
                try:
                    w.app.undo()
                except IndexError:
                    return EXPECTED
                raise Violation('%s/undo-on-empty-history-did-not-raise' % w.prop, '')
            if 'undo-created-group' in w.guards and w.cmdlog[-1].get('created_group'):
                return 'guarded'
            w.app.undo()
            w.redolog.append(w.cmdlog.pop())
            return OK
        if k == 'redo':
            if not w.redolog:
                try:
                    w.app.redo()
                except IndexError:
                    return EXPECTED
                raise Violation('%s/redo-on-empty-history-did-not-raise' % w.prop, '')
            w.app.redo()
            w.cmdlog.append(w.redolog.pop())
            return OK
        if k == 'delay_open':
            w.delay_open(op[1])
            return OK
        if k == 'delay_close':
            w.delay_close(op[1])
            return OK
        if k == 'collect':
            gc.collect()
            return OK
    except Violation:
        raise
    except Exception as e:
        raise OpCrash(op, e)
    return None   # not a common op


def gen_common(rng, k):
    """Arguments for a common op kind."""
    r8 = lambda: rng.randrange(8)
    if k == 'new':
        return ['new', rng.randrange(len(SHAPES)), rng.randrange(1, 4), rng.randrange(10000)]
    if k == 'extend_list':
        hs = [rng.randrange(8) for _ in range(rng.randrange(1, 4))]
        if rng.chance(0.5):
            hs.append(hs[0])
        return [k, hs, rng.chance(0.3)]
    if k in ('append', 'remove', 'do_add', 'do_remove', 'extend_junk', 'remove_group'):
        return [k, r8()]
    if k in ('clear', 'append_junk', 'undo', 'redo', 'collect'):
        return [k]
    if k == 'merge':
        return [k, r8(), r8()]
    if k == 'setitem':
        return [k, r8(), r8()]
    if k == 'new_group':
        return [k, gen_recipe(rng, 2)]
    if k == 'set_state':
        return [k, r8(), gen_recipe(rng, 2)]
    if k == 'set_label':
        return [k, r8(), r8()]
    if k == 'set_style':
        a = rng.pick(sorted(STYLE_VALUES))
        return [k, r8(), a, r8()]
    if k == 'set_edit':
        return [k, [r8() for _ in range(rng.randrange(0, 3))]]
    if k == 'set_mode':
        return [k, rng.randrange(len(MODES))]
    if k == 'do_apply':
        return [k, gen_recipe(rng, 1), rng.pick([None, None] + list(range(len(MODES))))]
    if k == 'do_roi':
        shape = rng.pick(['rect', 'circle', 'poly', 'xrange', 'yrange'])
        p = [rng.randrange(-3, 8) + 0.5, rng.randrange(-3, 8) + 0.5, rng.randrange(1, 7), rng.randrange(1, 7)]
        return [k, [shape, p], rng.pick([None] + list(range(len(MODES)))), r8(), r8(), r8()]
    if k == 'delay_open':
        return [k, rng.pick(['hub', 'hub', 'links'])]
    if k == 'delay_close':
        return [k, rng.chance(0.2)]
    raise ValueError(k)


def mask_of_view(data, state, view):
    from glue.core.exceptions import IncompatibleAttribute
    try:
        return 'ok', np.array(data.get_mask(state, view=view), dtype=bool)
    except IncompatibleAttribute:
        return 'incompatible', None
    except Exception as e:      # the observation records that (and how) evaluation fails
        return 'error:%s' % type(e).__name__, None
