"""Runs inside one worker interpreter (fixed PYTHONHASHSEED): executes cases,
explores blocks of run seeds, minimises and replays."""
import faulthandler
import importlib
import json
import os
import signal
import sys
import traceback

from sim import seams
from sim.core import Rng, RunResult, Violation, derive, ddmin, digest_of, jdump

RUN_WATCHDOG_S = float(os.environ.get('VERIF_RUN_WATCHDOG', '120'))


class WatchdogTimeout(BaseException):
    pass


def _on_alarm(signum, frame):
    raise WatchdogTimeout()


def load_check(prop):
    return importlib.import_module('sim.checks.%s' % prop.lower())


def run_case(check, case, keep_log=False):
    """Execute one case from a clean global state.  Returns (RunResult, harness_error)."""
    res = RunResult()
    need_glue = getattr(check, 'NEED_GLUE', True)
    seams.install(need_glue)
    if need_glue:
        seams.reset_globals()
    seams.begin_run(case.get('env_seed', 0))
    herr = None
    old = signal.signal(signal.SIGALRM, _on_alarm)
    signal.setitimer(signal.ITIMER_REAL, RUN_WATCHDOG_S)
    try:
        try:
            check.execute(case, res)
        except Violation as v:
            res.add_violation(v.sig, v.detail)
        except WatchdogTimeout:
            res.add_violation('%s/liveness/watchdog' % check.PROP,
                              'run made no progress within %gs' % RUN_WATCHDOG_S)
        except RecursionError as e:
            res.add_violation('%s/liveness/recursion' % check.PROP, repr(e)[:200])
        except Exception:
            herr = traceback.format_exc()
    finally:
        signal.setitimer(signal.ITIMER_REAL, 0)
        signal.signal(signal.SIGALRM, old)
        seams.end_run()
    res.digest = digest_of(res.log)
    if not keep_log:
        res.log = []
    return res, herr


def case_for(check, prop, tier, verif_seed, idx, guards):
    seed = derive(verif_seed, prop, tier, idx)
    rng = Rng(seed)
    cfg = dict(check.TIERS[tier])
    case = check.generate(rng, cfg, guards)
    case['env_seed'] = seed & 0xffffffff
    case['seed'] = seed
    case['idx'] = idx
    return case


def explore(prop, tier, verif_seed, start, count, guards, want_digests=False, max_keep=3):
    check = load_check(prop)
    out = {'runs': 0, 'violations': [], 'faults': {}, 'probes': {}, 'fps': set(),
           'nontrivial': 0, 'nops': 0, 'nchecks': 0, 'samples': [], 'harness_errors': [],
           'digests': [], 'simtime': 0.0, 'nviol': 0, 'sigcount': {}}
    for idx in range(start, start + count):
        case = case_for(check, prop, tier, verif_seed, idx, guards)
        res, herr = run_case(check, case)
        out['runs'] += 1
        if herr:
            if len(out['harness_errors']) < 3:
                out['harness_errors'].append({'idx': idx, 'case': case, 'trace': herr})
            continue
        for k, v in res.faults.items():
            out['faults'][k] = out['faults'].get(k, 0) + v
        for k, v in res.probes.items():
            out['probes'][k] = out['probes'].get(k, 0) + v
        out['fps'] |= res.fingerprints
        out['nontrivial'] += 1 if res.nontrivial else 0
        out['nops'] += res.nops
        out['nchecks'] += res.nchecks
        out['simtime'] += res.simtime
        if want_digests:
            out['digests'].append([idx, res.digest])
        if res.violations:
            out['nviol'] += 1
            for s in res.sigs():
                out['sigcount'][s] = out['sigcount'].get(s, 0) + 1
            known = set(s for v in out['violations'] for s in v['sigs'])
            if len(out['violations']) < max_keep or not set(res.sigs()) <= known:
                if len(out['violations']) < 12:
                    out['violations'].append({'idx': idx, 'case': case, 'sigs': res.sigs(),
                                              'detail': res.violations[0]['detail'],
                                              'digest': res.digest})
        elif len(out['samples']) < 2 and res.nontrivial:
            out['samples'].append(case)
    out['fps'] = sorted(out['fps'])
    return out


def minimise(prop, case, sig, max_tests=300):
    """Shrink case['ops'] (and knobs through check.simplify) while the same
    signature persists.  Pure function of (case, code)."""
    check = load_check(prop)
    tests = [0]

    def still_fails(c):
        tests[0] += 1
        res, herr = run_case(check, c)
        return herr is None and sig in res.sigs()

    if not still_fails(case):
        return None, tests[0]

    def with_ops(ops):
        c = dict(case)
        c['ops'] = ops
        return c

    ops = ddmin(case['ops'], lambda o: still_fails(with_ops(o)), max_tests=max_tests)
    best = with_ops(ops)
    simplify = getattr(check, 'simplify', None)
    if simplify is not None:
        progress = True
        rounds = 0
        while progress and rounds < 6 and tests[0] < max_tests * 2:
            progress = False
            rounds += 1
            for cand in simplify(best):
                if tests[0] >= max_tests * 2:
                    break
                if jdump(cand) != jdump(best) and still_fails(cand):
                    best = cand
                    progress = True
                    break
        ops = ddmin(best['ops'], lambda o: still_fails(dict(best, ops=o)), max_tests=100)
        best = dict(best, ops=ops)
    return best, tests[0]


def replay(prop, case, keep_log=False):
    check = load_check(prop)
    res, herr = run_case(check, case, keep_log=keep_log)
    return res, herr
