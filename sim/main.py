"""Orchestrator.

  main.py <PROP> [quick|thorough]      run the check for one property
  main.py replay <file>                replay a violation / finding witness
  main.py selftest determinism [PROP…] digests must not depend on process, order, workers
  main.py mkwitness <PROP> <replay-file> <out>   copy a minimised replay as finding witness

Exit 0: property held on everything explored (known findings are reported as
KNOWN-FINDING lines).  Exit 1: VIOLATION line(s).  Exit 2: the harness itself
failed (never a verdict).
"""
import json
import os
import subprocess
import sys
import tempfile
import time
from concurrent.futures import ThreadPoolExecutor

HERE = os.path.dirname(os.path.abspath(__file__))
ROOT = os.path.dirname(HERE)
sys.path.insert(0, ROOT)

from sim.core import derive, jdump  # noqa

PY = os.environ.get('VERIF_PYTHON', '/venv/bin/python')
WORKER = os.path.join(HERE, 'worker.py')
FINDINGS = os.path.join(ROOT, 'known_findings.json')
# evidence is only ever written to /verif/evidence by a run against /repo itself; probes against a scratch tree write elsewhere
EVIDENCE_DIR = os.environ.get('VERIF_EVIDENCE_DIR') or (
    os.path.join(ROOT, 'evidence') if not os.environ.get('VERIF_REPO') else os.path.join(ROOT, 'replays', 'scratch-evidence'))
REPLAY_DIR = os.environ.get('VERIF_REPLAY_DIR') or os.path.join(ROOT, 'replays')
BLOCK_TIMEOUT = float(os.environ.get('VERIF_BLOCK_TIMEOUT', '3000'))


def workers():
    return max(1, int(os.environ.get('VERIF_WORKERS', str(min(16, os.cpu_count() or 1)))))


def worker_env(pyhashseed):
    env = dict(os.environ)
    env['PYTHONHASHSEED'] = str(pyhashseed)
    env['MPLBACKEND'] = 'Agg'
    env['PYTHONDONTWRITEBYTECODE'] = '1'
    env['OMP_NUM_THREADS'] = '1'
    env['OPENBLAS_NUM_THREADS'] = '1'
    env['MKL_NUM_THREADS'] = '1'
    env.pop('GLUE_VIZ_GLUE_VERIF', None)
    repo = os.environ.get('VERIF_REPO')
    if repo:
        env['PYTHONPATH'] = repo + os.pathsep + env.get('PYTHONPATH', '')
    return env


def run_worker(args, pyhashseed, timeout=BLOCK_TIMEOUT):
    """Run worker.py; returns (parsed last-line JSON or None, stderr tail, returncode)."""
    try:
        p = subprocess.run([PY, WORKER] + [str(a) for a in args], env=worker_env(pyhashseed),
                           stdout=subprocess.PIPE, stderr=subprocess.PIPE, timeout=timeout,
                           cwd=ROOT)
    except subprocess.TimeoutExpired as e:
        return None, 'worker timed out after %ss' % timeout, -9
    out = p.stdout.decode('utf-8', 'replace').strip().splitlines()
    doc = None
    if out:
        try:
            doc = json.loads(out[-1])
        except ValueError:
            doc = None
    return doc, p.stderr.decode('utf-8', 'replace')[-3000:], p.returncode


def load_findings(prop=None):
    if not os.path.exists(FINDINGS):
        return []
    doc = json.load(open(FINDINGS))
    return [f for f in doc.get('findings', []) if prop is None or f['property'] == prop]


def block_hashseed(prop, verif_seed, block):
    return derive(verif_seed, prop, 'pyhashseed', block) % (2 ** 32)


def plan_blocks(check, tier):
    cfg = check.TIERS[tier]
    runs, blocks = cfg['runs'], cfg['blocks']
    per = max(1, runs // blocks)
    return [(b, b * per, per) for b in range(blocks)]


def import_check(prop):
    import importlib
    return importlib.import_module('sim.checks.%s' % prop.lower())


def write_replay(prop, tier, verif_seed, pyhashseed, case, sig, digest, detail, path=None):
    os.makedirs(REPLAY_DIR, exist_ok=True)
    if path is None:
        path = os.path.join(REPLAY_DIR, '%s-%s-%s.json' % (prop, verif_seed, case.get('idx', 'x')))
    doc = {'property': prop, 'tier': tier, 'verif_seed': verif_seed, 'pyhashseed': pyhashseed,
           'case': case, 'expect': {'sig': sig, 'digest': digest}, 'detail': detail}
    with open(path, 'w') as f:
        json.dump(doc, f, indent=1, sort_keys=True)
    return path


def replay_file(path, want_log=False):
    spec = json.load(open(path))
    prop = spec['property']
    args = ['replay', prop, path] + (['log'] if want_log else [])
    doc, err, rc = run_worker(args, spec.get('pyhashseed', 0), timeout=600)
    return spec, doc, err, rc


def replay_witnesses(prop, findings):
    """Replay all witnesses of a property, one worker interpreter per distinct PYTHONHASHSEED."""
    groups = {}
    for f in findings:
        spec = json.load(open(os.path.join(ROOT, f['witness'])))
        groups.setdefault(spec.get('pyhashseed', 0), []).append((f['id'], spec['case']))
    out = {}

    def run(item):
        hs, items = item
        with tempfile.TemporaryDirectory(prefix='verif-wit-') as td:
            fin = os.path.join(td, 'cases.json')
            json.dump([c for _, c in items], open(fin, 'w'))
            docs, err, rc = run_worker(['replaymany', prop, fin], hs, timeout=900)
        return items, docs, err

    with ThreadPoolExecutor(max_workers=workers()) as ex:
        for items, docs, err in ex.map(run, sorted(groups.items())):
            for i, (fid, _) in enumerate(items):
                out[fid] = (docs[i] if docs is not None and i < len(docs) else None, err)
    return out


def minimise_case(prop, case, sig, pyhashseed):
    with tempfile.TemporaryDirectory(prefix='verif-min-') as td:
        fin = os.path.join(td, 'in.json')
        fout = os.path.join(td, 'out.json')
        json.dump({'case': case, 'sig': sig}, open(fin, 'w'))
        doc, err, rc = run_worker(['minimise', prop, fin, fout], pyhashseed, timeout=1500)
        if os.path.exists(fout):
            return json.load(open(fout)), err
    return None, err


def cmd_check(prop, tier):
    t0 = time.time()
    verif_seed = int(os.environ.get('VERIF_SEED', '0'))
    check = import_check(prop)
    findings = load_findings(prop)
    open_f = [f for f in findings if f['status'] == 'open']
    fixed_f = [f for f in findings if f['status'] == 'fixed']
    guards = sorted(set(g for f in open_f for g in f.get('guards', [])))
    lines = []
    violations = []   # (sig, replay path)
    harness_errors = []

    # ---- phase A: witnesses of known findings
    known_seen = {}
    wdocs = replay_witnesses(prop, findings)
    for f in findings:
        wpath = os.path.join(ROOT, f['witness'])
        doc, err = wdocs.get(f['id'], (None, 'not replayed'))
        if doc is None or doc.get('harness_error'):
            harness_errors.append('witness %s: %s' % (f['witness'], (doc or {}).get('harness_error') or err))
            continue
        sigs = set(v['sig'] for v in doc['violations'])
        reproduced = f['signature'] in sigs
        if f['status'] == 'open':
            if reproduced:
                lines.append('KNOWN-FINDING: property=%s %s [%s]' % (prop, f['title'], f['id']))
                known_seen[f['id']] = 'reproduced'
            else:
                lines.append('NOTE: known finding %s no longer reproduces (witness passes)' % f['id'])
                known_seen[f['id']] = 'gone'
        else:
            if sigs:
                violations.append((sorted(sigs)[0], wpath, 'fixed finding %s is back' % f['id']))
                known_seen[f['id']] = 'REGRESSED'
            else:
                known_seen[f['id']] = 'stays fixed'

    # ---- phase B: seeded exploration
    blocks = plan_blocks(check, tier)
    gjson = json.dumps(guards)

    def do_block(b):
        bi, start, count = b
        hs = block_hashseed(prop, verif_seed, bi)
        doc, err, rc = run_worker(['explore', prop, tier, verif_seed, start, count, gjson], hs)
        return bi, hs, doc, err, rc

    with ThreadPoolExecutor(max_workers=workers()) as ex:
        results = list(ex.map(do_block, blocks))

    agg = {'runs': 0, 'faults': {}, 'probes': {}, 'fps': set(), 'nontrivial': 0, 'nops': 0,
           'nchecks': 0, 'samples': [], 'nviol': 0, 'simtime': 0.0, 'sigcount': {}}
    found = []
    for bi, hs, doc, err, rc in results:
        if doc is None:
            harness_errors.append('block %d: rc=%s %s' % (bi, rc, err[-1500:]))
            continue
        agg['runs'] += doc['runs']
        for k in ('faults', 'probes', 'sigcount'):
            for kk, vv in doc[k].items():
                agg[k][kk] = agg[k].get(kk, 0) + vv
        agg['fps'].update(doc['fps'])
        for k in ('nontrivial', 'nops', 'nchecks', 'nviol', 'simtime'):
            agg[k] += doc[k]
        if len(agg['samples']) < 3:
            agg['samples'].extend(doc['samples'][:1])
        for he in doc['harness_errors']:
            harness_errors.append('block %d idx %s: %s' % (bi, he['idx'], he['trace'][-1500:]))
        for v in doc['violations']:
            found.append((hs, v))

    # ---- phase C: minimise + classify each distinct signature
    by_sig = {}
    for hs, v in found:
        for s in v['sigs']:
            by_sig.setdefault(s, (hs, v))
    open_sigs = {f['signature']: f for f in open_f}
    counted_known = {}
    todo = sorted(by_sig.items())[:int(os.environ.get('VERIF_MAX_MINIMISE', '4'))]

    def do_min(item):
        sig, (hs, v) = item
        mini, err = minimise_case(prop, v['case'], sig, hs)
        return sig, hs, v, mini, err

    with ThreadPoolExecutor(max_workers=workers()) as ex:
        minis = list(ex.map(do_min, todo))
    for sig, hs, v, mini, err in minimis_sorted(minis):
        if sig in open_sigs:
            counted_known[sig] = agg['sigcount'].get(sig, 0)
            continue
        if mini is None or mini.get('case') is None:
            # could not confirm in a fresh interpreter: report the original case unminimised
            path = write_replay(prop, tier, verif_seed, hs, v['case'], sig, v['digest'], v['detail'])
            violations.append((sig, path, 'unminimised (%s)' % (err or '')[-200:]))
            continue
        path = write_replay(prop, tier, verif_seed, hs, mini['case'], sig, mini['digest'], mini['detail'])
        # replay must reproduce in a fresh process
        spec, doc, err2, rc = replay_file(path)
        ok = doc is not None and sig in set(x['sig'] for x in doc['violations']) and doc['digest'] == mini['digest']
        violations.append((sig, path, mini['detail'] + ('' if ok else ' [REPLAY MISMATCH]')))
    for sig in sorted(by_sig):
        if sig not in [t[0] for t in todo] and sig not in open_sigs:
            hs, v = by_sig[sig]
            path = write_replay(prop, tier, verif_seed, hs, v['case'], sig, v['digest'], v['detail'],
                                path=os.path.join(REPLAY_DIR, '%s-%s-%s-raw.json' % (prop, verif_seed, v['idx'])))
            violations.append((sig, path, 'unminimised (minimise budget)'))

    wall = time.time() - t0
    # ---- evidence
    write_evidence(check, prop, tier, verif_seed, agg, wall, violations, known_seen, counted_known,
                   guards, harness_errors, len(blocks))
    for l in lines:
        print(l)
    for sig, n in sorted(counted_known.items()):
        print('NOTE: %d explored run(s) hit known finding signature %s' % (n, sig))
    if harness_errors:
        for h in harness_errors[:5]:
            print('HARNESS-ERROR: %s' % h.replace('\n', ' | ')[-1800:])
    for sig, path, detail in violations:
        print('VIOLATION property=%s replay=%s' % (prop, path))
        print('  signature: %s' % sig)
        print('  detail: %s' % detail.replace('\n', ' ')[:600])
    print('%s %s: runs=%d nontrivial=%d distinct=%d ops=%d oracle_checks=%d faults=%s wall=%.1fs' % (
        prop, tier, agg['runs'], agg['nontrivial'], len(agg['fps']), agg['nops'], agg['nchecks'],
        jdump(agg['faults']), wall))
    if violations:
        return 1
    if harness_errors:
        return 2
    return 0


def minimis_sorted(minis):
    return sorted(minis, key=lambda m: m[0])


def write_evidence(check, prop, tier, verif_seed, agg, wall, violations, known_seen, counted_known,
                   guards, harness_errors, nblocks):
    os.makedirs(EVIDENCE_DIR, exist_ok=True)
    runs = max(agg['runs'], 0)
    skip = getattr(check, 'PROBES_THOROUGH_ONLY', []) if tier == 'quick' else []
    probes_zero = sorted(p for p in getattr(check, 'PROBES', []) if agg['probes'].get(p, 0) == 0 and p not in skip)
    cov = {
        'evaluations': runs,
        'distinct_nontrivial': len(agg['fps']),
        'rule': check.RULE,
        'samples': agg['samples'][:3] if agg['samples'] else [{'note': 'no non-trivial passing run recorded'}],
        'explanation': getattr(check, 'EXPLANATION', ''),
        'runs_per_hour': int(runs / wall * 3600) if wall > 0 else 0,
        'seeds_per_hour': int(runs / wall * 3600) if wall > 0 else 0,
        'seed_range': {'verif_seed': verif_seed, 'first_index': 0, 'last_index': runs - 1,
                       'derivation': 'run_seed = sha256(VERIF_SEED, property, tier, index)'},
        'nontrivial_runs': agg['nontrivial'],
        'operations_executed': agg['nops'],
        'oracle_comparisons': agg['nchecks'],
        'simulated_time_s': round(agg['simtime'], 3),
        'simulated_time_note': getattr(check, 'SIMTIME_NOTE', 'logical steps only; this engine has no clock'),
        'fault_kinds_fired': agg['faults'],
        'reach_probes': agg['probes'],
        'reach_probes_stuck_at_zero': probes_zero,
        'components_real': getattr(check, 'REAL', []),
        'components_stub': getattr(check, 'STUB', []),
        'known_findings_replayed': known_seen,
        'runs_hitting_known_findings': counted_known,
        'generator_guards': guards,
        'worker_blocks': nblocks,
        'workers': workers(),
        'harness_errors': len(harness_errors),
        'violation_signatures': sorted(set(v[0] for v in violations)),
        'exhaustive': False,
    }
    doc = {'property_id': prop, 'tier': tier, 'seed': verif_seed, 'level': 'exploration',
           'coverage': cov, 'assumptions': getattr(check, 'ASSUMPTIONS', []),
           'wall_s': round(wall, 2), 'violations': len(violations)}
    with open(os.path.join(EVIDENCE_DIR, '%s.json' % prop), 'w') as f:
        json.dump(doc, f, indent=1, sort_keys=True)


def cmd_replay(path):
    spec, doc, err, rc = replay_file(path, want_log=bool(os.environ.get('VERIF_LOG')))
    prop = spec['property']
    if doc is None:
        print('HARNESS-ERROR: replay worker failed: %s' % err[-1500:])
        return 2
    if doc.get('harness_error'):
        print('HARNESS-ERROR: %s' % doc['harness_error'])
        return 2
    if os.environ.get('VERIF_LOG'):
        for e in doc.get('log', []):
            print('  ', jdump(e))
    sigs = sorted(set(v['sig'] for v in doc['violations']))
    exp = spec.get('expect', {})
    print('replay %s: signatures=%s digest=%s (expected sig=%s digest=%s)' % (
        path, sigs, doc['digest'][:16], exp.get('sig'), (exp.get('digest') or '')[:16]))
    for v in doc['violations'][:3]:
        print('  %s: %s' % (v['sig'], v['detail'][:800]))
    if sigs:
        print('VIOLATION property=%s replay=%s' % (prop, path))
        return 1
    return 0


def main(argv):
    if len(argv) < 2:
        print(__doc__)
        return 2
    if argv[1] == 'replay':
        return cmd_replay(argv[2])
    if argv[1] == 'selftest':
        from sim import selftest
        return selftest.main(argv[2:])
    prop = argv[1].upper()
    tier = argv[2] if len(argv) > 2 else os.environ.get('VERIF_TIER', 'quick')
    return cmd_check(prop, tier)


if __name__ == '__main__':
    sys.exit(main(sys.argv))
