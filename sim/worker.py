"""Worker entry point: one interpreter with a fixed PYTHONHASHSEED.

  worker.py explore  <prop> <tier> <verif_seed> <start> <count> <guards-json> [digests]
  worker.py minimise <prop> <infile> <outfile>
  worker.py replay   <prop> <infile> [log]
  worker.py replaymany <prop> <infile>       (infile: list of cases)

Results go to stdout as one JSON document on the last line.
"""
import faulthandler
import json
import os
import sys
import warnings

HERE = os.path.dirname(os.path.abspath(__file__))
ROOT = os.path.dirname(HERE)
if ROOT not in sys.path:
    sys.path.insert(0, ROOT)
_repo = os.environ.get('VERIF_REPO')
if _repo:
    sys.path.insert(0, _repo)


def main(argv):
    faulthandler.enable()
    warnings.simplefilter('ignore')
    os.environ.setdefault('MPLBACKEND', 'Agg')
    from sim import runner
    from sim.core import jdump
    mode = argv[1]
    prop = argv[2]
    if mode == 'explore':
        tier, vseed, start, count = argv[3], int(argv[4]), int(argv[5]), int(argv[6])
        guards = json.loads(argv[7])
        want = len(argv) > 8 and argv[8] == 'digests'
        out = runner.explore(prop, tier, vseed, start, count, guards, want_digests=want)
        out['pyhashseed'] = os.environ.get('PYTHONHASHSEED')
        sys.stdout.write('\n' + jdump(out) + '\n')
    elif mode == 'minimise':
        spec = json.load(open(argv[3]))
        best, ntests = runner.minimise(prop, spec['case'], spec['sig'])
        result = {'case': best, 'tests': ntests}
        if best is not None:
            res, herr = runner.replay(prop, best)
            result['digest'] = res.digest
            result['sigs'] = res.sigs()
            result['detail'] = res.violations[0]['detail'] if res.violations else ''
        json.dump(result, open(argv[4], 'w'))
    elif mode == 'replay':
        spec = json.load(open(argv[3]))
        res, herr = runner.replay(prop, spec['case'], keep_log=len(argv) > 4)
        out = res.to_json()
        out['harness_error'] = herr
        if len(argv) > 4:
            out['log'] = res.log
        sys.stdout.write('\n' + jdump(out) + '\n')
    elif mode == 'replaymany':
        cases = json.load(open(argv[3]))
        outs = []
        for c in cases:
            res, herr = runner.replay(prop, c)
            o = res.to_json()
            o['harness_error'] = herr
            outs.append(o)
        sys.stdout.write('\n' + jdump(outs) + '\n')
    else:
        raise SystemExit('unknown mode %s' % mode)


if __name__ == '__main__':
    main(sys.argv)
