"""Harness-side seams: every source of nondeterminism the properties depend on
is owned here (DESIGN.md section 2).  Nothing in /repo is edited.

  N3  gc                -> gc disabled; collections only where the schedule says
  N4  identity hashes   -> per-object numbers from the run PRNG
  N6  uuid.uuid4        -> PRNG stream
  N7  process globals   -> reset_globals()
  N8  files             -> SimFS (fault-injecting ``open``), RLIMIT_FSIZE faults
  N9  poll timer        -> SimClock / SimTimer (discrete-event queue)
"""
import builtins
import errno
import gc
import io
import os
import random
import sys
import uuid as _uuid_mod
import heapq

_STATE = {'installed': False, 'hash_rng': None, 'uuid_rng': None}
_ORIG_UUID4 = _uuid_mod.uuid4


# --------------------------------------------------------------------------- N4 / N6

def _make_hash(stream):
    """Per-object number drawn lazily from the named per-run stream.  Separate streams per class family keep
    the numbers a family gets independent of how often objects of another family are hashed (e.g. by reads
    that go through the memo dictionaries)."""
    def _sim_hash(self):
        d = self.__dict__
        try:
            return d['_simh']
        except KeyError:
            rng = _STATE['hash_rng'].get(stream) if _STATE['hash_rng'] else None
            h = rng.getrandbits(60) if rng is not None else id(self) >> 4
            d['_simh'] = h
            return h
    return _sim_hash


def _sim_uuid4():
    rng = _STATE['uuid_rng']
    if rng is None:
        return _ORIG_UUID4()
    return _uuid_mod.UUID(int=rng.getrandbits(128), version=4)


def hashed_classes():
    from glue.core.component_id import ComponentID
    from glue.core.component_link import ComponentLink
    from glue.core.data import BaseData
    from glue.core.subset import Subset, SubsetState
    from glue.core.subset_group import GroupedSubset, SubsetGroup
    from glue.core.component import Component
    from glue.core.link_helpers import LinkCollection
    return [(ComponentID, 'cid'), (ComponentLink, 'link'), (BaseData, 'data'), (Subset, 'subset'), (SubsetState, 'state'),
            (GroupedSubset, 'subset'), (SubsetGroup, 'group'), (Component, 'comp'), (LinkCollection, 'linkcoll')]


def install(need_glue=True):
    """Install process-wide seams once.  Idempotent."""
    if _STATE['installed']:
        return
    gc.disable()
    _uuid_mod.uuid4 = _sim_uuid4
    if need_glue:
        for cls, stream in hashed_classes():
            cls.__hash__ = _make_hash(stream)
        _guard_fast_histogram()
    _STATE['installed'] = True


def _guard_fast_histogram():
    """fast_histogram.histogram1d (third party, C) dereferences out of bounds and kills the interpreter when the range
    is narrower than the smallest normal double - which glue's histogram viewer requests for a dataset whose values are all
    0 (range (0, 5e-323)).  Not one of the properties; the harness answers such calls with an empty histogram so that the
    worker survives.  Every other call goes to the real function."""
    import numpy as np
    import glue.core.data as D
    real = D.histogram1d
    if getattr(real, '_verif_guard', False):
        return

    def histogram1d(x, bins, range, weights=None):
        lo, hi = float(range[0]), float(range[1])
        if not (hi - lo) > 1e-300:
            return np.zeros(int(bins))
        return real(x, bins=bins, range=range, weights=weights)
    histogram1d._verif_guard = True
    D.histogram1d = histogram1d


def begin_run(env_seed):
    """Start the per-run streams.  Call after reset_globals()."""
    _STATE['hash_rng'] = dict((name, random.Random('%d/%s' % (env_seed, name)))
                              for name in ('cid', 'link', 'data', 'subset', 'state', 'group', 'comp', 'linkcoll'))
    _STATE['uuid_rng'] = random.Random((env_seed << 1) ^ 0x1b873593)
    # N12: the process-global generators (glue draws categorical jitter and random subsets from numpy's)
    random.seed(env_seed ^ 0x5bd1e995)
    if 'numpy' in sys.modules:
        sys.modules['numpy'].random.seed((env_seed ^ 0x2545f491) & 0xffffffff)


def end_run():
    _STATE['hash_rng'] = None
    _STATE['uuid_rng'] = None


# --------------------------------------------------------------------------- N7

_MEMO_CACHES = []


def _find_memo_caches():
    found = []
    seen = set()
    for name, mod in list(sys.modules.items()):
        if not name.startswith('glue') or mod is None:
            continue
        for obj in list(vars(mod).values()):
            cands = [obj]
            if isinstance(obj, type):
                cands.extend(vars(obj).values())
            for c in cands:
                f = getattr(c, '__func__', c)
                memo = getattr(f, '__memoize_cache', None) if callable(f) else None
                if isinstance(memo, dict) and id(memo) not in seen:
                    seen.add(id(memo))
                    found.append(memo)
    return found


def clear_memo_caches():
    """Empty every glue @memoize dictionary (used by observers that must not see C05-type staleness)."""
    global _MEMO_CACHES
    nmods = len(sys.modules)
    if _STATE.get('nmods') != nmods or not _MEMO_CACHES:
        _MEMO_CACHES = _find_memo_caches()
        _STATE['nmods'] = nmods
    for memo in _MEMO_CACHES:
        memo.clear()


def reset_globals():
    """Bring process-global glue state back to that of a fresh interpreter."""
    import glue.core.registry as reg
    reg.Registry().clear()
    reg.Registry()._disable = False
    global _MEMO_CACHES
    nmods = len(sys.modules)
    if _STATE.get('nmods') != nmods:
        _MEMO_CACHES = _find_memo_caches()
        _STATE['nmods'] = nmods
    caches = _MEMO_CACHES
    for memo in caches:
        memo.clear()
    import glue.core.fixed_resolution_buffer as frb
    # every module-level dictionary of the buffer module is a cache (ARRAY_CACHE / PIXEL_CACHE on the pinned tree; found by type,
    # not by name, so that another layout of the caches does not stop the harness)
    for name, val in list(vars(frb).items()):
        if isinstance(val, dict) and not name.startswith('__'):
            val.clear()
    import glue
    env = getattr(glue, 'env', None)
    if env is not None:
        vars(env).pop('__view', None)
        vars(env).pop('data', None)
        vars(env).pop('references', None)
    from glue.core import edit_subset_mode  # noqa
    plt = sys.modules.get('matplotlib.pyplot')
    if plt is not None and plt.get_fignums():
        plt.close('all')
    gc.collect()
    if _STATE.get('frozen') != nmods:
        # everything alive now is import-time state: keep it out of later collections
        gc.freeze()
        _STATE['frozen'] = nmods
    return len(caches)


# --------------------------------------------------------------------------- N3

def collect():
    return gc.collect()


class aggressive_gc(object):
    """Within the block the collector runs at (deterministic) allocation
    points inside operations, not only where the schedule says."""

    def __enter__(self):
        self.old = gc.get_threshold()
        gc.set_threshold(1, 1, 1)
        gc.enable()

    def __exit__(self, *a):
        gc.disable()
        gc.set_threshold(*self.old)


# --------------------------------------------------------------------------- N8

class InjectedFault(OSError):
    pass


class _FaultyFile(object):
    """Text/binary file wrapper with a byte budget.  When the budget runs out:
    mode 'enospc' -> partial write then OSError(ENOSPC);
    mode 'torn'   -> partial write, then behaves as if the process died:
                     raises SimCrash (a BaseException) which the harness
                     catches at the top of the operation;
    mode 'closefail' -> writes succeed, close raises EIO after flushing part.
    """

    def __init__(self, f, fs, mode, budget):
        self._f = f
        self._fs = fs
        self._mode = mode
        self._budget = budget

    def write(self, data):
        n = len(data)
        if self._mode in ('enospc', 'torn') and n > self._budget:
            part = data[:self._budget]
            self._f.write(part)
            self._f.flush()
            self._budget = 0
            self._fs.fired(self._mode)
            if self._mode == 'torn':
                self._f.close()
                raise SimCrash('torn write')
            raise InjectedFault(errno.ENOSPC, 'No space left on device (injected)')
        self._budget -= n
        return self._f.write(data)

    def close(self):
        if self._mode == 'closefail' and not self._f.closed:
            self._f.close()
            self._fs.fired('closefail')
            raise InjectedFault(errno.EIO, 'Input/output error on close (injected)')
        return self._f.close()

    def __enter__(self):
        return self

    def __exit__(self, *a):
        self.close()

    def __getattr__(self, name):
        return getattr(self._f, name)

    def __iter__(self):
        return iter(self._f)


class SimCrash(BaseException):
    """The simulated process died at this instant (only durable state survives)."""


class SimFS(object):
    """Fault-injecting ``open`` bound into the namespace of glue modules that
    call the builtin (module-level shadowing)."""

    def __init__(self):
        self.plan = None     # dict(kind=..., budget=..., match=substring)
        self.counts = {}
        self._patched = []

    def fired(self, kind):
        self.counts[kind] = self.counts.get(kind, 0) + 1

    def arm(self, kind, budget=0, match=None, when='w'):
        self.plan = {'kind': kind, 'budget': budget, 'match': match, 'when': when}

    def disarm(self):
        self.plan = None

    def open(self, file, mode='r', *args, **kwargs):
        plan = self.plan
        if plan is not None and (plan['match'] is None or plan['match'] in str(file)):
            writing = any(c in mode for c in 'wax+')
            if writing and plan['when'] == 'w':
                kind = plan['kind']
                if kind == 'open_enoent':
                    self.plan = None
                    self.fired(kind)
                    raise InjectedFault(errno.ENOENT, 'No such file or directory (injected)', str(file))
                if kind == 'open_enospc':
                    self.plan = None
                    self.fired(kind)
                    raise InjectedFault(errno.ENOSPC, 'No space left on device (injected)', str(file))
                if kind in ('enospc', 'torn', 'closefail'):
                    self.plan = None
                    f = builtins.open(file, mode, *args, **kwargs)
                    return _FaultyFile(f, self, kind, plan['budget'])
            if (not writing) and plan['when'] == 'r':
                kind = plan['kind']
                if kind == 'read_eio':
                    self.plan = None
                    self.fired(kind)
                    raise InjectedFault(errno.EIO, 'Input/output error (injected)', str(file))
        return builtins.open(file, mode, *args, **kwargs)

    def patch(self, *modules):
        for m in modules:
            m.open = self.open
            self._patched.append(m)

    def unpatch(self):
        for m in self._patched:
            try:
                del m.open
            except AttributeError:
                pass
        self._patched = []


class fsize_limit(object):
    """Real kernel fault: writes past ``nbytes`` fail with EFBIG (SIGXFSZ ignored)."""

    def __init__(self, nbytes):
        self.nbytes = nbytes

    def __enter__(self):
        import resource
        import signal
        self._old_sig = signal.signal(signal.SIGXFSZ, signal.SIG_IGN)
        self._old = resource.getrlimit(resource.RLIMIT_FSIZE)
        resource.setrlimit(resource.RLIMIT_FSIZE, (self.nbytes, self._old[1]))

    def __exit__(self, *a):
        import resource
        import signal
        resource.setrlimit(resource.RLIMIT_FSIZE, self._old)
        signal.signal(signal.SIGXFSZ, self._old_sig)


# --------------------------------------------------------------------------- N9

class SimClock(object):
    """Discrete-event clock: a heap of (time, seq, timer)."""

    def __init__(self):
        self.now = 0.0
        self.seq = 0
        self.heap = []
        self.fired = 0

    def schedule(self, delay, timer):
        self.seq += 1
        heapq.heappush(self.heap, (self.now + delay, self.seq, timer))

    def advance(self, dt, max_events=100):
        """Jump the clock forward by dt, firing due timers in (time, seq) order."""
        target = self.now + dt
        n = 0
        while self.heap and self.heap[0][0] <= target and n < max_events:
            t, _, timer = heapq.heappop(self.heap)
            self.now = t
            if timer.active:
                n += 1
                self.fired += 1
                timer.fire()
        self.now = max(self.now, target)
        return n

    def timer_factory(self):
        clock = self

        class SimTimer(object):
            """Repeating timer with QTimer semantics (FileWatcher expects the
            Qt timer, which repeats until stopped)."""

            def __init__(self, interval, callback):
                self.interval = interval / 1000.
                self.callback = callback
                self.active = False

            def start(self):
                if not self.active:
                    self.active = True
                    clock.schedule(self.interval, self)

            def stop(self):
                self.active = False

            def fire(self):
                self.callback()
                if self.active:
                    clock.schedule(self.interval, self)

        return SimTimer
