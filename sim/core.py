"""Shared kernel of the simulator: seeds, digests, results, delta-debugging.

One integer decides everything: every choice in a run is drawn from a
``random.Random`` seeded by ``derive(VERIF_SEED, property, index)``; nothing
here reads a clock or an unseeded PRNG.
"""
import hashlib
import json
import random

__all__ = ['derive', 'Rng', 'digest_of', 'RunResult', 'ddmin', 'jdump', 'Violation']


def derive(*parts):
    """Stable 63-bit integer from any tuple of JSON-able parts."""
    h = hashlib.sha256(json.dumps(parts, sort_keys=True, default=str).encode()).digest()
    return int.from_bytes(h[:8], 'big') >> 1


class Rng(random.Random):
    """random.Random with a few helpers; seeded from one integer only."""

    def chance(self, p):
        return self.random() < p

    def pick(self, seq):
        return seq[self.randrange(len(seq))]

    def wpick(self, pairs):
        """pairs: list of (item, weight>=0)."""
        total = sum(w for _, w in pairs)
        x = self.random() * total
        for item, w in pairs:
            x -= w
            if x < 0:
                return item
        return pairs[-1][0]

    def child(self, *tag):
        return Rng(derive(self.getrandbits(62), *tag))


def jdump(obj):
    return json.dumps(obj, sort_keys=True, separators=(',', ':'), default=str)


def digest_of(events):
    h = hashlib.sha256()
    for e in events:
        h.update(jdump(e).encode())
        h.update(b'\n')
    return h.hexdigest()


class Violation(Exception):
    """Raised by oracles; carries a signature and a human-readable detail."""

    def __init__(self, sig, detail=''):
        Exception.__init__(self, '%s: %s' % (sig, detail))
        self.sig = sig
        self.detail = detail


class RunResult(object):
    """Outcome of executing one case."""

    __slots__ = ('violations', 'digest', 'faults', 'probes', 'nops', 'nchecks',
                 'fingerprints', 'nontrivial', 'log', 'simtime')

    def __init__(self):
        self.violations = []      # list of {"sig":..., "detail":...}
        self.digest = ''
        self.faults = {}          # fault kind -> times it actually fired
        self.probes = {}          # reach probe -> count
        self.nops = 0
        self.nchecks = 0          # oracle comparisons made
        self.fingerprints = set()  # ints
        self.nontrivial = False
        self.log = []             # canonical event log (kept only on request)
        self.simtime = 0.0

    def add_violation(self, sig, detail=''):
        self.violations.append({'sig': sig, 'detail': str(detail)[:2000]})

    def count(self, d, key, n=1):
        d[key] = d.get(key, 0) + n

    def fault(self, kind, n=1):
        self.faults[kind] = self.faults.get(kind, 0) + n

    def probe(self, name, n=1):
        self.probes[name] = self.probes.get(name, 0) + n

    def fp(self, *parts):
        self.fingerprints.add(derive(*parts) & 0xffffffffffff)

    def sigs(self):
        return sorted(set(v['sig'] for v in self.violations))

    def to_json(self):
        return {'violations': self.violations, 'digest': self.digest,
                'faults': self.faults, 'probes': self.probes, 'nops': self.nops,
                'nchecks': self.nchecks, 'nontrivial': self.nontrivial}


def ddmin(items, test, max_tests=400):
    """Delta debugging on a list.  ``test(sublist) -> bool`` is True when the
    sublist still shows the failure.  Returns a 1-minimal-ish sublist within
    the test budget."""
    tests = [0]

    def t(x):
        tests[0] += 1
        return test(x)

    n = 2
    items = list(items)
    while len(items) >= 2 and tests[0] < max_tests:
        chunk = max(1, len(items) // n)
        subsets = [items[i:i + chunk] for i in range(0, len(items), chunk)]
        reduced = False
        # try complements first (drop one chunk)
        for i in range(len(subsets)):
            if tests[0] >= max_tests:
                break
            comp = [x for j, s in enumerate(subsets) if j != i for x in s]
            if comp and t(comp):
                items = comp
                n = max(n - 1, 2)
                reduced = True
                break
        if not reduced:
            if n >= len(items):
                break
            n = min(len(items), n * 2)
    # final single-element pass
    i = 0
    while i < len(items) and tests[0] < max_tests and len(items) > 1:
        cand = items[:i] + items[i + 1:]
        if t(cand):
            items = cand
        else:
            i += 1
    return items
